"""Static configuration: feature sets, units, and which units / dependencies decide each property."""

def _cfgs():
    out = {}
    for cname, c in (("n", []), ("p", ["adhoccounting"]), ("pm", ["adhoccounting", "adhoccountmodels"])):
        for vname, v in (("", []), ("v", ["variablelist"])):
            for fname, f in (("", []), ("f", ["frontend"])):
                out["c_" + cname + vname + fname] = c + v + f
    return out


# the 12 combinations of {no counting, paths, paths+models} x {variablelist} x {frontend}; "default" == c_pvf
CFGS = _cfgs()
CFGS["default"] = ["adhoccounting", "variablelist", "frontend"]
CFGS["nofrontend"] = ["adhoccounting", "variablelist"]
ALL12 = sorted(k for k in CFGS if k.startswith("c_"))

UNITS = {
    "bdd": dict(vspec="bdd.vspec"),
    "iters": dict(vspec="iters.vspec"),
    "ng": dict(vspec="ng.vspec"),
    "adf": dict(vspec="adf.vspec"),
    "bio": dict(vspec="bio.vspec"),
}

COMMON_ASSUME = [
    "Verus 0.2026.09.13 + bundled Z3 + rustc are trusted; one verifier unsoundness (conditional move of a &mut binder) is avoided by the lowering and guarded by reachability probes at every program point",
    "vx rules (DESIGN 3.2): D drop docs/derives/logging (log arguments unevaluated), R RefCell made explicit (&self methods that fill the count table become &mut self; the dynamic borrow flag is not modelled), O outlined std expressions with textbook ensures, L/P iterator chains and reference patterns lowered to index loops, T trait-impl bodies as inherent fns, G ghost tokens - assumed meaning-preserving",
    "derived Hash/Eq of BddNode, Term, Var and tuple keys obey vstd's obeys_key_model (axioms in speclib/bdd_spec.rs); derived PartialOrd on Var is the order of the wrapped usize",
    "64-bit target; Vec growth never exhausts memory; stack overflow of the recursive functions is not modelled",
    "public fields Bdd.nodes / Adf.ac / Adf.bdd are not mutated behind the API; callers of the public Bdd::node respect its ordering precondition (all in-crate callers are verified to)",
]
BDD_QUICK = [("bdd", "default"), ("bdd", "c_n")]
BDD_PROBES = [("bdd", "default")]

PROPS = {
    "C06": dict(
        units=dict(quick=BDD_QUICK, thorough=[("bdd", c) for c in ALL12]), probes=dict(quick=BDD_PROBES, thorough=BDD_PROBES), depends=[],
        assumptions=COMMON_ASSUME,
        explanation="wf_core() - node table reduced and ordered, unique table exact (hence no duplicate nodes), memo tables hold only correct entries - is required and re-established by every diagram-building operation (new, variable, not/and/or/imp/iff/xor, restrict, if_then_else, node, From<Vec<BddNode>>, fix_import); sp::lemma_canon proves equal function => equal handle on every such table, so a handle is TOP/BOT iff the function is valid/unsatisfiable",
        not_decided=["bridge conversion loop (Adf::from_biodivine_vector) is covered under C09 when that unit is present", "recv() pushes nodes received from the channel unchecked: canonicity of the mirror follows from the producer's (C19 mirror lemma), not from a local contract"]),
    "C07": dict(
        units=dict(quick=BDD_QUICK, thorough=[("bdd", c) for c in ALL12]), probes=dict(quick=BDD_PROBES, thorough=BDD_PROBES), depends=["C06"],
        assumptions=COMMON_ASSUME,
        explanation="every operation's postcondition is an equation den(result) == <named Boolean function>(den(operands)) over closed spec functions bf_*; restrict is the cofactor bf_restrict; ext(old.nodes, nodes) (append-only) in every postcondition plus lemma_ext_den gives: no operation changes the function of a previously issued handle"),
    "C11": dict(
        units=dict(quick=BDD_QUICK, thorough=[("bdd", c) for c in ALL12]), probes=dict(quick=BDD_PROBES, thorough=BDD_PROBES), depends=["C06", "C07", "C13"],
        assumptions=COMMON_ASSUME + ["no selected function iterates over a HashMap/HashSet (iteration order is the only nondeterminism in safe single-threaded Rust besides the RNG)"],
        explanation="owned: every memo insert is keyed by exactly the call's own arguments, ext() keeps issued handles stable, the &self count queries leave every other field unchanged (same_but_counts). Depended on (C06/C07/C13, a failure there makes this check UNDECIDED, not VIOLATION): memo tables (ite/restrict/count) are part of wf(): an entry must be correct to be in a table, every insert site carries the assertion that the inserted entry is; every postcondition determines den(result) as a function of den(operands) only, and ext() keeps issued handles stable; the &self count queries are proved to leave every other field unchanged (same_but_counts)",
        not_decided=["order of models produced by the nogood search across histories (determinism argument only)", "ADF-level answers: inherited from C01-C03 contracts when those units are present"]),
    "C12": dict(
        units=dict(quick=[("bdd", "default"), ("bdd", "c_n"), ("bdd", "c_pm")], thorough=[("bdd", "default")] + [("bdd", c) for c in ALL12]), depends=[], differential=True,
        assumptions=COMMON_ASSUME,
        explanation="the contracts of C06/C07/C13/C14 are feature-independent statements about den/supp/paths/depth/models; each cfg-split body is verified against the same postconditions under each feature combination (vx evaluates #[cfg] exactly as rustc does). An obligation that fails under some configuration but is discharged (or does not exist) under the default configuration is a C12 violation; obligations failing in all configurations belong to their owning property. Documented exception: memoised model counting with adhoccounting but without adhoccountmodels (models_memo_exact() == false) is excluded, not proved",
        not_decided=["ADF-level semantics are verified against the bdd contracts, which are identical in all configurations (run under default features)"]),
    "C13": dict(
        units=dict(quick=BDD_QUICK, thorough=[("bdd", c) for c in ALL12]), probes=dict(quick=BDD_PROBES, thorough=BDD_PROBES), inherits=["C06"], depends=[],
        assumptions=COMMON_ASSUME + ["machine arithmetic: the usize counter arithmetic is NOT assumed to be exact - each overflow site is a failing obligation listed as an open known finding (F6-*); all other postconditions of those functions are proved past them, i.e. under no-overflow at those sites"],
        explanation="count table entries equal paths_spec / depth_spec / models_spec (standard recurrences over the DAG) for every handle (wf_counts); var_deps equal supp (wf_deps) and lemma_supp_indep ties supp to semantic dependence; paths, max_depth, models, modelcount_naive, modelcount_memoization return the spec values (naive == memoised because both equal the spec); passive/active_var_impact count exactly the dependencies; ModelCounts::more_models <=> models >= cmodels",
        not_decided=["the #sat ratio lemma (models : counter-models == satisfying : falsifying assignments) and the path-cube contract of Bdd::interpretations are not yet under contract"]),
    "C14": dict(
        units=dict(quick=BDD_QUICK, thorough=[("bdd", c) for c in ALL12]), probes=dict(quick=BDD_PROBES, thorough=BDD_PROBES), depends=["C06"],
        assumptions=COMMON_ASSUME + ["serde's derive round-trips the non-skipped fields (nodes, cache via vectorize, ac, ordering) to equal values and default-initialises skipped ones (wf_imported() is exactly that state)"],
        explanation="From<Vec<BddNode>> on a well-formed duplicate-free node list rebuilds a store with r.nodes@ == input (identical numbering) and wf(); fix_import turns the state serde leaves (wf_imported) into the full wf() without touching nodes or the unique table; answers then equal the original's because every answer is a function of den (C07/C11)",
        not_decided=["'the CLI never overwrites an existing export file' is a file-system effect in bin/src/main.rs - no contract within reach", "Adf::from((ordering,bdd,ac)) field-wise construction is covered with the adf unit"]),
    "C19": dict(
        units=dict(quick=[("bdd", "default"), ("bdd", "c_nf")], thorough=[("bdd", c) for c in ALL12 if c.endswith("f")]), probes=dict(quick=BDD_PROBES, thorough=BDD_PROBES), depends=[],
        assumptions=COMMON_ASSUME + ["crossbeam_channel is modelled by an opaque stub with a prophetic message sequence msg(chan,k): FIFO, lossless, duplication-free for one Sender and one Receiver on a fresh channel; send/try_recv are atomic (speclib/stubs_crossbeam.rs) - ASSUMED, no thread interleaving is explored", "set_sender/set_receiver on a non-fresh store (the documented 'Attention' cases) are outside the precondition"],
        explanation="producer invariant (part of wf(), preserved by node and hence by every operation): nodes[k+2] == msg(c,k) for all k < sent and len == sent+2; receiver invariant (recv loop): nodes[k+2] == msg(c,k) for k < recvd, len == recvd+2, every received node forwarded in order when a sender is present (relay_inv); recv returns true iff term < final len; both invariants are local to one party and mention only msg, so every interleaving of atomic channel operations preserves both; lemma_mirror / lemma_relay compose them"),
    "C20": dict(
        units=[("iters", "default")], probes=dict(quick=[("iters", "default")], thorough=[("iters", "default")]), depends=[],
        assumptions=[COMMON_ASSUME[0], COMMON_ASSUME[1], "slice-to-Vec `.into()`, `bool::then_some` are outlined std expressions with assumed textbook specs", "64-bit target"],
        explanation="lowered real text of both iterators' new/next/decrement/decrement_vec: indexes = the undecided positions in descending order (und_range), two-valued: first call yields the stored all-BOT completion (counter value 0), every later call the binary successor over indexes (val2 + 1, step2), None exactly after the all-TOP vector (value 2^k - 1), positions outside indexes untouched (same_outside); three-valued: state in {0,1,2}^k starting all-2 (decodes to the interpretation itself, lemma_dec3_all2), decrement_vec is the ternary predecessor (val3 - 1, false exactly at 0 with the vector unchanged), next returns dec3(original, indexes, state). Enumeration lemmas: counter value determines the vector (lemma_val2_inj / lemma_val3_inj, lemma_dec3_inj), every completion / refinement is the image of a value in range (lemma_completion_reached, lemma_refinement_reached, bounds 2^k / 3^k), so unit steps over the full range visit each exactly once",
        not_decided=["the composition 'unit steps from 0 to 2^k-1 visit every value once' is arithmetic over the step contracts and is argued in DESIGN, not a machine-checked trace lemma"]),
    "C18": dict(
        units=[("ng", "default")], probes=dict(quick=[("ng", "default")], thorough=[("ng", "default")]), depends=[],
        assumptions=[COMMON_ASSUME[0], COMMON_ASSUME[1],
                     "roaring::RoaringBitmap is an opaque stub (speclib/stubs_roaring.rs): the set-algebra meaning of insert/remove/contains/len/is_empty/min/bitand/bitor/bitxor/bitxor_assign/clone is ASSUMED",
                     "derive(Default)/derive(Clone) of NoGood act field-wise on the two bitmaps (assumed); Vec<NoGood>::contains is any(==) with the PartialEq impl whose real text is verified as NoGood::eq__ng",
                     "usize -> u32 / u64 -> usize try_into().expect(..) conversions are outlined; their success is a precondition (at most u32::MAX statements) and a 64-bit target",
                     "rule M: try_from_pair_iter is verified for the one instantiation used in the crate (a materialised vector of the filter_map over conclude, which is side-effect free)"],
        explanation="nogoods denote partial assignments (act, val) over u32 positions; total assignments are spec functions. Verbatim text: is_violating(a,b) <=> a is contained in b; conclude returns a literal only if it is forced; eq, disjunction, len. Lowered text: from_term_vec / update_term_vec are the encode/decode maps; try_from_pair_iter; add_ng in all three duplicate-elimination modes keeps the bucket invariant and satisfies excl_add: a total assignment avoids the new store iff it avoided the old one and does not extend the added nogood (nothing forgotten, nothing invented); conclusions: Some(r) => r extends the interpretation only by literals forced by the stored nogoods (sound_ext), None => no total extension avoids all stored nogoods (no_extension), Some => no stored nogood matches the interpretation (none_matches, i.e. a conflict is always reported when one matches); conclusion_closure: Update(v) => v is a forced extension, Inconsistent => no extension, and the closure loop terminates (the number of undecided positions strictly decreases)",
        not_decided=["add_ng silently ignores the empty nogood (size 0 has no bucket): the excluded-set equation is stated for non-empty nogoods, for the empty one the store is proved unchanged - documented corner, see DESIGN 5 C18",
                     "incomplete propagation (a bucket whose conclusions contradict each other is skipped) is consistent with all three clauses and deliberately not flagged"]),
    "C01": dict(
        units=[("adf", "default"), ("bdd", "default"), ("bio", "default")], probes=dict(quick=[("adf", "default"), ("bio", "default")], thorough=[("adf", "default"), ("bdd", "default"), ("bio", "default")]), inherits=["C06", "C07"], depends=[],
        assumptions=[COMMON_ASSUME[0], COMMON_ASSUME[1], COMMON_ASSUME[2], COMMON_ASSUME[3], COMMON_ASSUME[4],
                     "the bdd unit's functions are imported by contract only (external_body with the contract text of contracts/bdd.vspec); their bodies are verified in the bdd unit, which this check also runs",
                     "the ADF's acceptance conditions are handles of the shared store (Adf::wf(): bdd.wf() and ac[i] < nodes.len()); established by from_parser (C09) and preserved by every function here"],
        explanation="biodivine back-end (unit bio, relative to the assumed biodivine stub: bio_den, canonical constants, restrict = cofactor by a (variable,value) list): adfbiodivine::Adf::grounded_internal / grounded / var_list satisfy the same contract is_lfp(bio_dens(ac), tvs(result)) with the same ghost rank derivation and termination (the number of decided entries grows while truth_extention is set). Native back-end: lowered real text of Adf::grounded_internal / grounded: post-1 den(r[i]) == cof(den(in[i]), r, n) (every entry is its condition restricted by all decided entries of the result), a ghost rank derivation (each decided entry is a constant once the entries of smaller rank are substituted), termination (n - t_vals decreases); sp::lemma_grounded_is_lfp (canonicity + induction on the rank) turns this into the postcondition is_lfp(dens(ac), tvs(r)): r is a fixpoint of the three-valued consequence operator Gamma and is below every fixpoint; the least fixpoint is unique (lemma_lfp_unique), every other statement is undecided",
        not_decided=["hybrid back-end = bridge (C09) of the biodivine result followed by the native procedure on the already restricted vector: the lemma 'lfp of Gamma over cof(ac, g) for g below lfp equals lfp' is argued in DESIGN, not machine checked", "'same on all back-ends' is equality of the abstract least fixpoint of dens(ac) resp. bio_dens(ac); that the two vectors of functions coincide is C09"]),
    "C02": dict(
        units=[("adf", "default"), ("bdd", "default"), ("iters", "default"), ("bio", "default")], probes=dict(quick=[("adf", "default"), ("bio", "default")], thorough=[("adf", "default"), ("bio", "default")]), inherits=["C06", "C07", "C01", "C20"], depends=[],
        assumptions=[COMMON_ASSUME[0], COMMON_ASSUME[1], COMMON_ASSUME[2], COMMON_ASSUME[3], COMMON_ASSUME[4],
                     "the bdd unit's functions are imported by contract only (external_body with the contract text of contracts/bdd.vspec); their bodies are verified in the bdd unit, which this check also runs",
                     "the ADF's acceptance conditions are handles of the shared store (Adf::wf(): bdd.wf() and ac[i] < nodes.len()); established by from_parser (C09) and preserved by every function here"] + ["rule C: the closure passed to .filter(..) in Adf::complete is lifted to Adf::complete__c0 (captured variables become parameters, body verbatim); the body of complete is checked syntactically to be `ThreeValuedInterpretationsIterator::new(&self.grounded()).filter(c0)` (shape obligation); std's Iterator::filter yields exactly the elements satisfying the predicate, in order (ASSUMED)"],
        explanation="biodivine back-end: the lifted filter closure of adfbiodivine::Adf::complete <==> is_fix(bio_dens(ac), tvs(v)) (var_list_from_term, restrict = cofactor, Term::cmp_information). Native: complete__c0(ac, v) <==> is_fix(dens(ac), tvs(v)): v is a fixpoint of Gamma (a statement is true/false in v iff its condition is valid/unsatisfiable under v, undecided otherwise) - via post cof(den(ac[i]), v) per entry, canonicity (lemma_tvo_gamma) and Term::compare_inf's truth table. Composition (pure lemmas): the candidates are exactly the refinements of the grounded interpretation, each once, grounded itself first (C20); every fixpoint refines the least fixpoint (lemma_fix_refines_lfp, C01); the grounded interpretation is a fixpoint (lemma_lfp_is_fix) so it passes the filter and is listed first",
        not_decided=["ThreeValuedInterpretationsIterator::from_bdd (Term::from per element, then new) is covered through Term::from__bio and C20's new; laziness / interleaving of the returned iterator with other uses of the ADF (excluded by the borrow checker: the iterator holds &mut self)"]),
    "C03": dict(
        units=[("adf", "default"), ("bdd", "default"), ("iters", "default"), ("bio", "default")], probes=dict(quick=[("adf", "default"), ("bio", "default")], thorough=[("adf", "default"), ("bio", "default")]), inherits=["C06", "C07", "C01", "C20"], depends=[],
        assumptions=[COMMON_ASSUME[0], COMMON_ASSUME[1], COMMON_ASSUME[2], COMMON_ASSUME[3], COMMON_ASSUME[4],
                     "the bdd unit's functions are imported by contract only (external_body with the contract text of contracts/bdd.vspec); their bodies are verified in the bdd unit, which this check also runs",
                     "the ADF's acceptance conditions are handles of the shared store (Adf::wf(): bdd.wf() and ac[i] < nodes.len()); established by from_parser (C09) and preserved by every function here"] + ["rule C: the closures of stable / stable_with_prefilter / stable_bdd_representation are lifted (bodies verbatim) and the chain shapes `TwoValuedInterpretationsIterator::new(&grounded).map(c0).filter(c1).map(c2)` resp. `candidates.into_iter().filter(c0).collect()` are checked syntactically; std map/filter/collect meaning ASSUMED", "biodivine's stable_model_candidates (sat_valuations of the rewriting) is outside this unit: assumed to list every two-valued model"],
        explanation="biodivine back-end: the lifted filter closures of adfbiodivine::Adf::stable and stable_bdd_representation <==> is_stable(bio_dens(ac), v) (reduction list = false statements, reduct by restrict, grounded_internal of the reduct, lemma_pairs_stable). Native: Adf::stability_check(v) <==> is_stable(dens(ac), v) with is_stable(fs,v) := is_lfp(reduct(fs,v), tvs(v)), reduct = every condition with v's false statements replaced by falsum; same for the lifted closures: stable__c0 returns (v, lfp of the reduct), c1 is pairs_agree, and pairs_agree(c0(v)) <==> is_stable (lemma_pairs_stable, uniqueness of the least fixpoint); the pre-filter variant: the extra test is is_fix(Gamma) which stability implies for two-valued v (lemma_stable_is_fix), the dummy pair ([BOT],[TOP]) is rejected by the filter; stable_bdd_representation's filter <==> is_stable. Candidates: two-valued completions of grounded (C20), every stable model refines grounded (stable => fixpoint => refines lfp). No failing precondition / panic path: an ADF without stable models yields an empty result",
        not_decided=["the rewriting (stm_rewriting / stable_representation / stable_model_candidates) that produces the candidates of the two single-formula variants is not under contract: candidates are assumed to contain every two-valued model; their filter (<==> is_stable) is proved, so nothing is invented, completeness of these two variants rests on that assumption"]),
    "C09": dict(
        units=[("adf", "default"), ("bdd", "default")], probes=dict(quick=[("adf", "default")], thorough=[("adf", "default")]), inherits=["C07", "C06"], depends=[],
        assumptions=[COMMON_ASSUME[0], COMMON_ASSUME[1], COMMON_ASSUME[2], COMMON_ASSUME[4],
                     "AdfParser and VarContainer are opaque stubs (speclib/formula_spec.rs): dict_size/var_container/formula_order/formula_count/ac_at return the abstract parser content, VarContainer::variable returns the index recorded for the label, every formula mentions only declared statements (atoms_ok) and the formula order is injective (p_wf) - ASSUMED, the parser side is C08 (not applicable)",
                     "enum Formula is extracted from lib/src/parser.rs (derives dropped); Box<Formula> recursion handled natively"],
        explanation="Adf::term (verbatim, structural recursion, decreases *formula): den(result) == fsem(formula, ordering) where fsem maps Bot/Top/Atom/Not/And/Or/Imp/Xor/Iff to bf_const/bf_var/bf_not/bf_and/bf_or/bf_imp/bf_xor/bf_iff; Adf::from_parser (two lowered for_each loops): the result is a well-formed ADF (bdd.wf(), every handle in the store) and for every formula k the handle stored for its statement denotes fsem(formula_k): compiled(parser); formulas of any size, any variable order (the order is the abstract dictionary)",
        not_decided=["biodivine bridge (Adf::from_biodivine_vector) and the pre-grounded import: not under contract yet", "Formula::to_boolean_expr (biodivine expression building) not under contract yet"]),
}
