"""Static configuration: feature sets, units, and which units / dependencies decide each property."""

CFGS = {
    "default": ["adhoccounting", "variablelist", "frontend"],
    "nofrontend": ["adhoccounting", "variablelist"],
}

UNITS = {
    "bdd": dict(vspec="bdd.vspec"),
}

COMMON_ASSUME = [
    "Verus 0.2026.09.13 + bundled Z3 + rustc are trusted; one verifier unsoundness (conditional move of a &mut binder) is avoided by the lowering and guarded by reachability probes",
    "vx rules D (drop docs/derives/logging), R (RefCell made explicit), O (outlined std expressions with textbook ensures), L/P (iterator chains and reference patterns lowered to index loops) are assumed meaning-preserving",
    "derived Hash/Eq of BddNode, Term, Var and tuple keys obey vstd's obeys_key_model (axioms in speclib/bdd_spec.rs)",
    "derived PartialOrd on Var is the order of the wrapped usize (PartialOrdSpecImpl in speclib)",
    "64-bit target; Vec growth never exhausts memory; stack overflow of recursive functions not modelled",
    "public fields Bdd.nodes / Adf.ac / Adf.bdd are not mutated behind the API",
]

PROPS = {
    "C06": dict(units=[("bdd", "nofrontend")], depends=[], assumptions=COMMON_ASSUME,
                explanation="wf() (reduced, ordered, duplicate-free node table, consistent unique table and memo tables) is required and re-established by every diagram-building operation; lemma_canon proves equal function => equal handle"),
    "C07": dict(units=[("bdd", "nofrontend")], depends=["C06"], assumptions=COMMON_ASSUME,
                explanation="every operation's postcondition is an equation between the denotation of the result and the named Boolean function of the operands' denotations; ext() (append-only) in every postcondition"),
}
