"""MANIFEST texts per property (level claimed, trusted base) and the not-applicable reasons."""
HOOKS = dict(
    guard="ellmau_adf_obdd_verif",
    enable='RUSTFLAGS="--cfg ellmau_adf_obdd_verif" (used only by the replay harness; the Verus pipeline reads source text and needs no hook)',
    baseline_off_cmd="cd /repo && cargo test --workspace --no-fail-fast --offline",
    source_commits=[],
    add_only=True,
)
TB = "Trusted: Verus/Z3/rustc; the vx rewriting rules (drop logging/derives, RefCell made explicit, outlined std expressions, iterator lowering); obeys_key_model axioms for the hash-map keys; derived PartialOrd on Var; 64-bit target. "
LEVELS = {
    "C06": dict(text="Proof, unbounded: every diagram-building function of lib/src/obdd.rs (real text, extracted each run) is verified by Verus to preserve the representation invariant wf_core() (reduced, ordered, unique table exact, memo tables correct) for all stores, handles and call histories; lemma_canon proves canonicity (equal function => equal handle). Histories are covered by induction through the invariant.",
                note=TB + "recv() (mirror) and the biodivine bridge are decided under C19/C09.", design_ref="DESIGN.md section 5 C06"),
    "C07": dict(text="Proof, unbounded: each of not/and/or/imp/iff/xor/variable/constant/restrict/if_then_else/node has the postcondition den(result) == the named Boolean function of den(operands) (restrict = cofactor) plus append-only ext(); verified on the real text for all operands and warm/cold memo tables.",
                note=TB + "Depends on C06's invariant (reported UNDECIDED, not VIOLATION, if only that breaks).", design_ref="DESIGN.md section 5 C07"),
    "C11": dict(text="Proof of the diagram-level clauses: memo/count tables never hold a wrong entry (conjuncts of wf()), issued handles are stable (ext), every result's denotation is a function of the operands' denotations only, &self count queries leave all other fields unchanged. ADF-level answer independence is inherited from the C01-C03 contracts.",
                note=TB + "Determinism of HashMap iteration is avoided syntactically (no selected function iterates a map).", design_ref="DESIGN.md section 5 C11"),
    "C12": dict(text="Proof per configuration: the same feature-independent postconditions are verified on the cfg-selected real bodies under the feature combinations (quick: default, all-off, paths+models; thorough: all 12); an obligation failing under a non-default configuration but not under default is the violation. The documented exception (memoised model counting with adhoccounting without adhoccountmodels) is excluded, not proved.",
                note=TB + "ADF-level code is verified against the bdd contracts, which are configuration independent.", design_ref="DESIGN.md section 5 C12", technique="differential contract verification across cargo feature configurations (Verus)"),
    "C13": dict(text="Proof modulo machine arithmetic: count-table entries, paths, max_depth, models, modelcount_naive/memoization equal the spec recurrences paths_spec/depth_spec/models_spec; var_dependencies == supp (and supp is tied to semantic independence); impact measures count exactly the dependencies; more_models <=> models >= cmodels. usize overflow sites are failing obligations recorded as open known findings (F6-*), not assumed away.",
                note=TB + "Not yet under contract: Bdd::interpretations path cubes, the #sat ratio lemma.", design_ref="DESIGN.md section 5 C13"),
    "C14": dict(text="Proof of the rebuild/repair clauses: From<Vec<BddNode>> reproduces identical numbering and wf(); fix_import re-establishes wf() from exactly the state serde's skip/default leave, without touching nodes or the unique table. serde's derive behaviour is assumed; the CLI no-overwrite clause is not applicable.",
                note=TB + "serde derive round-trip assumed.", design_ref="DESIGN.md section 5 C14"),
    "C19": dict(text="Proof of per-party invariants on the real text of Bdd::node (send clause), Bdd::recv (loop), with_sender/with_receiver/with_sender_receiver/set_*: producer, mirror and relay invariants over a prophetic FIFO channel model, recv's return value, termination of recv; lemma_mirror / lemma_relay compose them. All interleavings are covered because each invariant is local to one party - relative to the assumed channel semantics.",
                note=TB + "crossbeam_channel FIFO/lossless/atomic for one sender and one receiver on a fresh channel is ASSUMED (stub); no thread interleaving is explored.", design_ref="DESIGN.md section 5 C19"),
}
LEVELS["C20"] = dict(text="Proof, unbounded: the real text of TwoValuedInterpretationsIterator::{new,next} and ThreeValuedInterpretationsIterator::{new,next,decrement,decrement_vec} (iterator chains lowered mechanically to index loops) is verified against successor/predecessor specifications of a binary / ternary odometer over the undecided positions, with injectivity, range and surjectivity lemmas giving: every completion/refinement exactly once, the interpretation itself first (three-valued), decided positions never altered. All vector lengths, all contents.",
                     note=TB + "Outlined std expressions: bool::then_some, slice->Vec into(). The final 'each value visited once by unit steps' composition is arithmetic over the contracts.", design_ref="DESIGN.md section 5 C20")
LEVELS["C18"] = dict(text="Proof, unbounded, relative to an assumed bitmap algebra: the real text of every NoGood method (verbatim) and of NoGoodStore::{new, try_new, set_dup_elem, add_ng, conclusions, conclusion_closure} (iterator chains lowered mechanically) is verified against a semantics of nogoods as partial assignments: conclusions are forced, a reported conflict means no total extension avoids the store, a matching stored nogood always yields a conflict, and add_ng preserves the excluded set exactly in all three duplicate-elimination modes; the closure loop terminates.",
                     note=TB + "roaring::RoaringBitmap set-algebra specs ASSUMED (opaque stub); derived Default/Clone of NoGood assumed field-wise; at most u32::MAX statements.", design_ref="DESIGN.md section 5 C18")
NOT_APPLICABLE = {
    "C04": "completeness of the counting-guided pruning search needs a whole-recursion invariant over search history, outside per-function contracts (DESIGN section 6); the sub-functions it uses are under contract elsewhere",
    "C08": "nom combinator parser over &str: Verus has no str byte reasoning and cannot type the combinator closures; Kani did not finish 4 symbolic bytes (DESIGN section 6)",
    "C10": "corollary of C01-C03 at the semantic level; the code-specific remainder (sorting through Arc<RwLock<Vec<String>>>, lexical_sort, Display formatting) is outside the verifier (DESIGN section 6)",
    "C15": "process-level stdout/exit status wired by clap derive macros; no contract on App::run can express it",
    "C16": "async actix handlers over MongoDB with spawned tasks and timeouts; outside this family",
    "C17": "concurrency + external database + sessions; outside this family",
}
