"""Kani front end (DESIGN 3.7): loop-free full-domain harnesses on the real crate; thorough tier only."""
import os, subprocess, shutil, hashlib, re

ROOT = os.path.dirname(os.path.dirname(os.path.abspath(__file__)))
# harness -> properties whose Verus proof assumes what the harness discharges
OWNERS = {
    "var_order_is_usize_order": ["C06", "C07"], "term_eq_is_usize_eq": ["C06", "C07", "C01", "C02", "C03"], "bddnode_eq_is_fieldwise": ["C06", "C14"],
    "var_is_constant": ["C13", "C12"], "compare_inf_truth_table": ["C02", "C03"], "model_counts": ["C13"],
    "outlined_min_max": ["C06", "C07", "C13", "C20"], "outlined_pow2": ["C13"], "outlined_then_some_and_result_and": ["C20", "C04"],
    "outlined_conversions": ["C18", "C05"], "no_inf_inconsistency_truth_table": ["C04"],
}
_res = {}


def run(repo):
    """returns dict harness -> 'SUCCESSFUL' | 'FAILED' | 'ERROR: ..' (cached per repo per process)"""
    if repo in _res:
        return _res[repo]
    key = hashlib.sha1(repo.encode()).hexdigest()[:8]
    src, tgt = f"/var/tmp/verif-kani-src-{key}", f"/var/tmp/verif-kani-target-{key}"
    os.makedirs(src, exist_ok=True)
    if os.path.exists(os.path.join(src, "src")):
        shutil.rmtree(os.path.join(src, "src"))
    shutil.copytree(os.path.join(ROOT, "kani", "src"), os.path.join(src, "src"))
    open(os.path.join(src, "Cargo.toml"), "w").write(open(os.path.join(ROOT, "kani", "Cargo.toml.in")).read().replace("@REPO@", repo))
    if os.path.exists(os.path.join(repo, "Cargo.lock")):
        shutil.copy(os.path.join(repo, "Cargo.lock"), os.path.join(src, "Cargo.lock"))
    env = dict(os.environ, CARGO_NET_OFFLINE="true", CARGO_TARGET_DIR=tgt)
    out = {}
    try:
        p = subprocess.run(["cargo", "kani"], cwd=src, env=env, capture_output=True, text=True, timeout=1800)
        txt = p.stdout + p.stderr
        cur = None
        for line in txt.splitlines():
            m = re.search(r"Checking harness proofs::(\w+)", line)
            if m:
                cur = m.group(1)
            m = re.search(r"VERIFICATION:- (\w+)", line)
            if m and cur:
                out[cur] = m.group(1)
                cur = None
        for h in OWNERS:
            out.setdefault(h, "ERROR: no result (" + txt[-200:].replace("\n", " ") + ")")
    except subprocess.TimeoutExpired:
        out = {h: "ERROR: timeout" for h in OWNERS}
    _res[repo] = out
    return out
