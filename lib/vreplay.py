"""Replay harness front end (DESIGN 3.6): builds /verif/replay against the repository under test and searches a concrete
failing input on the REAL crate for a property.  Bounded (small inputs, seeded); never a deciding step for a pass."""
import json, os, subprocess, hashlib, shutil, time

ROOT = os.path.dirname(os.path.dirname(os.path.abspath(__file__)))
MODES = {
    "C01": ["adf"], "C02": ["adf"], "C03": ["adf"], "C05": ["adf"], "C09": ["adf"],
    "C06": ["bdd", "persist"], "C07": ["bdd"], "C11": ["bdd", "adf"], "C13": ["bdd"], "C14": ["persist", "bdd"],
    "C18": ["ng"], "C19": ["mirror"], "C20": ["iters"], "C04": ["c04", "bdd"], "C10": ["c10"],
    # C12: the diagram-level oracle (truth tables, path / depth / model / dependency references) against builds of the crate
    # under non-default feature sets; "mode@cfg" selects the build
    "C12": ["bdd@c_n", "bdd@c_pm"],
}
DEFAULT_FEATS = ["adhoccounting", "variablelist", "frontend"]
FEATSETS = {"c_n": [], "c_pm": ["adhoccounting", "adhoccountmodels"]}
BOUNDS = "diagrams over 4 variables, op sequences of length <= 20 (+6 on the rebuilt store, + a restrict audit of every handle); ADFs with <= 4 statements (persistence mode: every other ADF has 4..6 statements and one if-then-else shaped acceptance condition over disjoint statement groups of different size, 4 seeds x 1000 ADFs; C04: 2..6 statements, call histories of length 2-3 on one object; C10: 2..4 statements, labels from a fixed pool, 3 sort modes, 4 reuse-after-sort histories; C11 delivery-order oracle: 6 statements) and formulas of depth <= 3; nogoods over 4 positions; interpretation vectors of length <= 5"
_cache = {}


def _build(repo, feats=None):
    feats = DEFAULT_FEATS if feats is None else feats
    key = hashlib.sha1((repo + "|" + ",".join(feats)).encode()).hexdigest()[:8]
    src = f"/var/tmp/verif-replay-src-{key}"
    tgt = f"/var/tmp/verif-replay-target-{key}"
    os.makedirs(src, exist_ok=True)
    if os.path.exists(os.path.join(src, "src")):
        shutil.rmtree(os.path.join(src, "src"))
    shutil.copytree(os.path.join(ROOT, "replay", "src"), os.path.join(src, "src"))
    open(os.path.join(src, "Cargo.toml"), "w").write(open(os.path.join(ROOT, "replay", "Cargo.toml.in")).read().replace("@REPO@", repo).replace("@FEATS@", ", ".join('"%s"' % f for f in feats)))
    lock = os.path.join(repo, "Cargo.lock")
    if os.path.exists(lock):
        shutil.copy(lock, os.path.join(src, "Cargo.lock"))
    env = dict(os.environ, CARGO_TARGET_DIR=tgt, CARGO_NET_OFFLINE="true")
    p = subprocess.run(["cargo", "build", "--offline", "-q"] + (["--features", ",".join(feats)] if feats else []), cwd=src, env=env, capture_output=True, text=True, timeout=1500)
    if p.returncode != 0:
        return None, p.stderr[-1500:]
    return os.path.join(tgt, "debug", "verif_replay"), ""


def run_modes(repo, modes, seed, budget=300, timeout=180, want=None):
    """returns (witness or None, checked inputs, notes); `want` = property tags whose findings count (None = any)"""
    checked, notes = 0, []
    for m in modes:
        m, _, cfg = m.partition("@")
        bkey = (repo, cfg)
        if bkey not in _cache:
            _cache[bkey] = _build(repo, FEATSETS[cfg] if cfg else None)
        exe, err = _cache[bkey]
        if exe is None:
            notes.append(f"replay harness does not build against this tree ({cfg or 'default features'}): " + err[-300:])
            continue
        # the oracles are cheap (bdd: 0.1 s per 6000 rounds, adf: 0.4 s per 300 ADFs): several seeds, many rounds
        seeds, bud = ((range(seed, seed + 8), max(budget, 3000)) if m in ("bdd", "c04") else (range(seed, seed + 4), max(budget, 1500)) if m == "c10" else (range(seed, seed + 4), max(budget, 1000)) if m == "adf" else (range(seed, seed + 4), max(budget, 1000)) if m == "persist" else ((seed, seed + 1), budget))
        for s in seeds:
            key = (repo, cfg, m, s, bud)
            if key not in _cache:
                try:
                    q = subprocess.run([exe, m, str(s + 1), str(bud)], capture_output=True, text=True, timeout=timeout)
                    line = [l for l in q.stdout.splitlines() if l.startswith("{")]
                    if line:
                        _cache[key] = json.loads(line[-1])
                    else:
                        _cache[key] = dict(witnesses={"?": f"replay harness mode {m} seed {s + 1} ended abnormally (exit {q.returncode}): {(q.stderr or q.stdout)[-400:]}"}, checked=0)
                except subprocess.TimeoutExpired:
                    _cache[key] = dict(witnesses={"?": f"replay harness mode {m} seed {s + 1}: no answer within {timeout}s (non-termination on a small input)"}, checked=0)
            r = _cache[key]
            checked += r.get("checked", 0)
            ws = r.get("witnesses", {})
            for tag, msg in sorted(ws.items()):
                if want is None or tag in want:
                    return dict(mode=m + ("@" + cfg if cfg else ""), seed=s + 1, budget=bud, tag=tag, input=msg + (f" [crate built with features {FEATSETS[cfg]}]" if cfg else ""), bounds=BOUNDS, rerun=f"{exe} {m} {s + 1} {bud}"), checked, notes
            for tag in ws:
                if tag == "?":
                    notes.append(ws[tag][:300])
                else:
                    notes.append(f"the harness found a failing input for {tag} (not this property): {ws[tag][:160]}")
    return None, checked, notes


def search(prop, unit, cfg, failure, repo, seed):
    """returns a witness dict or None (none = no failing input found within the stated bounds)"""
    modes = MODES.get(prop, [])
    if not modes:
        return None
    try:
        w, _, _ = run_modes(repo, modes, seed, want=[prop])
    except Exception as e:  # the harness must never turn into an alarm by itself
        return None
    return w


def replay_file(path):
    rec = json.load(open(path))
    print(json.dumps({k: rec[k] for k in rec if k != "verifier_output"}, indent=1))
    print(rec.get("verifier_output", ""))
    w = rec.get("witness")
    if w and w.get("rerun"):
        repo = os.environ.get("VERIF_REPO", "/repo")
        print(f"re-running the recorded search against {repo} ...")
        r, checked, _ = run_modes(repo, [w["mode"]], w["seed"] - 1, w.get("budget", 300), want=[w.get("tag", rec.get("property"))])
        print("observed now:", json.dumps(r) if r else f"no failing input (checked {checked})")
        return 1 if r else 0
    return 0
