"""Replay harness front end: searches a failing input on the real crate for a failed obligation (DESIGN §3.6)."""
import json


def search(prop, unit, cfg, failure, repo, seed):
    """returns a witness dict or None (none = no failing input found)"""
    return None


def replay_file(path):
    rec = json.load(open(path))
    print(json.dumps({k: rec[k] for k in rec if k != "verifier_output"}, indent=1))
    print(rec.get("verifier_output", ""))
    return 0
