"""Replay harness front end (DESIGN 3.6): builds /verif/replay against the repository under test and searches a concrete
failing input on the REAL crate for a property.  Bounded (small inputs, seeded); never a deciding step for a pass."""
import json, os, subprocess, hashlib, shutil, time

ROOT = os.path.dirname(os.path.dirname(os.path.abspath(__file__)))
MODES = {
    "C01": ["adf"], "C02": ["adf"], "C03": ["adf"], "C05": ["adf"], "C09": ["adf"],
    "C06": ["bdd", "persist"], "C07": ["bdd"], "C11": ["bdd", "adf"], "C13": ["bdd"], "C14": ["persist", "bdd"],
    "C18": ["ng"], "C19": ["mirror"], "C20": ["iters"], "C12": [],
}
BOUNDS = "diagrams over 4 variables, op sequences of length <= 20; ADFs with <= 4 statements and formulas of depth <= 3; nogoods over 4 positions; interpretation vectors of length <= 5"
_cache = {}


def _build(repo):
    key = hashlib.sha1(repo.encode()).hexdigest()[:8]
    src = f"/var/tmp/verif-replay-src-{key}"
    tgt = f"/var/tmp/verif-replay-target-{key}"
    os.makedirs(src, exist_ok=True)
    if os.path.exists(os.path.join(src, "src")):
        shutil.rmtree(os.path.join(src, "src"))
    shutil.copytree(os.path.join(ROOT, "replay", "src"), os.path.join(src, "src"))
    open(os.path.join(src, "Cargo.toml"), "w").write(open(os.path.join(ROOT, "replay", "Cargo.toml.in")).read().replace("@REPO@", repo))
    lock = os.path.join(repo, "Cargo.lock")
    if os.path.exists(lock):
        shutil.copy(lock, os.path.join(src, "Cargo.lock"))
    env = dict(os.environ, CARGO_TARGET_DIR=tgt, CARGO_NET_OFFLINE="true")
    p = subprocess.run(["cargo", "build", "--offline", "-q"], cwd=src, env=env, capture_output=True, text=True, timeout=1500)
    if p.returncode != 0:
        return None, p.stderr[-1500:]
    return os.path.join(tgt, "debug", "verif_replay"), ""


def run_modes(repo, modes, seed, budget=300, timeout=180, want=None):
    """returns (witness or None, checked inputs, notes); `want` = property tags whose findings count (None = any)"""
    if repo not in _cache:
        _cache[repo] = _build(repo)
    exe, err = _cache[repo]
    if exe is None:
        return None, 0, ["replay harness does not build against this tree: " + err[-300:]]
    checked, notes = 0, []
    for m in modes:
        for s in (seed, seed + 1):
            key = (repo, m, s, budget)
            if key not in _cache:
                try:
                    q = subprocess.run([exe, m, str(s + 1), str(budget)], capture_output=True, text=True, timeout=timeout)
                    line = [l for l in q.stdout.splitlines() if l.startswith("{")]
                    if line:
                        _cache[key] = json.loads(line[-1])
                    else:
                        _cache[key] = dict(witnesses={"?": f"replay harness mode {m} seed {s + 1} ended abnormally (exit {q.returncode}): {(q.stderr or q.stdout)[-400:]}"}, checked=0)
                except subprocess.TimeoutExpired:
                    _cache[key] = dict(witnesses={"?": f"replay harness mode {m} seed {s + 1}: no answer within {timeout}s (non-termination on a small input)"}, checked=0)
            r = _cache[key]
            checked += r.get("checked", 0)
            ws = r.get("witnesses", {})
            for tag, msg in sorted(ws.items()):
                if want is None or tag in want:
                    return dict(mode=m, seed=s + 1, budget=budget, tag=tag, input=msg, bounds=BOUNDS, rerun=f"{exe} {m} {s + 1} {budget}"), checked, notes
            for tag in ws:
                if tag == "?":
                    notes.append(ws[tag][:300])
                else:
                    notes.append(f"the harness found a failing input for {tag} (not this property): {ws[tag][:160]}")
    return None, checked, notes


def search(prop, unit, cfg, failure, repo, seed):
    """returns a witness dict or None (none = no failing input found within the stated bounds)"""
    modes = MODES.get(prop, [])
    if not modes:
        return None
    try:
        w, _, _ = run_modes(repo, modes, seed, want=[prop])
    except Exception as e:  # the harness must never turn into an alarm by itself
        return None
    return w


def replay_file(path):
    rec = json.load(open(path))
    print(json.dumps({k: rec[k] for k in rec if k != "verifier_output"}, indent=1))
    print(rec.get("verifier_output", ""))
    w = rec.get("witness")
    if w and w.get("rerun"):
        repo = os.environ.get("VERIF_REPO", "/repo")
        print(f"re-running the recorded search against {repo} ...")
        r, checked, _ = run_modes(repo, [w["mode"]], w["seed"] - 1, w.get("budget", 300), want=[w.get("tag", rec.get("property"))])
        print("observed now:", json.dumps(r) if r else f"no failing input (checked {checked})")
        return 1 if r else 0
    return 0
