"""Translation validation of the lowering rules (DESIGN 3.2 'tying the lowered text to the running code'): the lowered
text of every function under contract replaces the original in a scratch copy of the repository; the repository's own
library tests and the replay harness are run against that copy.  Thorough tier only."""
import os, subprocess, shutil, hashlib, glob, re

ROOT = os.path.dirname(os.path.dirname(os.path.abspath(__file__)))
_res = {}


def run(repo, seed=0):
    if repo in _res:
        return _res[repo]
    key = hashlib.sha1(repo.encode()).hexdigest()[:8]
    dest = f"/var/tmp/verif-lowered-src-{key}"
    shutil.rmtree(dest, ignore_errors=True)
    os.makedirs(dest)
    for name in os.listdir(repo):
        if name in ("target", ".git", "frontend", "docs", "res"):
            continue
        s = os.path.join(repo, name)
        if os.path.isdir(s):
            shutil.copytree(s, os.path.join(dest, name), ignore=shutil.ignore_patterns("target"))
        else:
            shutil.copy(s, os.path.join(dest, name))
    vx = os.path.join(ROOT, "tools/vx/target/release/vx")
    vspecs = sorted(glob.glob(os.path.join(ROOT, "contracts", "*.vspec")))
    p = subprocess.run([vx, "--lower-crate", repo, dest] + vspecs, capture_output=True, text=True)
    info = dict(lowered_chains=None, lib_tests=None, replay=None)
    if p.returncode != 0:
        info["error"] = "vx --lower-crate failed: " + p.stderr[-300:]
        _res[repo] = info
        return info
    try:
        info["lowered_chains"] = int(p.stdout.strip().splitlines()[-1])
    except Exception:
        pass
    env = dict(os.environ, CARGO_TARGET_DIR=f"/var/tmp/verif-lowered-target-{key}", CARGO_NET_OFFLINE="true")
    q = subprocess.run(["cargo", "test", "--offline", "-p", "adf_bdd", "--lib"], cwd=dest, env=env, capture_output=True, text=True, timeout=1800)
    m = re.search(r"test result: (\w+)\. (\d+) passed; (\d+) failed", q.stdout)
    info["lib_tests"] = dict(result=m.group(1), passed=int(m.group(2)), failed=int(m.group(3))) if m else dict(result="error", detail=(q.stdout + q.stderr)[-400:])
    import vreplay
    w, checked, notes = vreplay.run_modes(dest, ["adf", "bdd", "ng", "iters", "c04", "c10", "persist"], seed, budget=150)
    info["replay"] = dict(inputs_checked=checked, witness=w, bounds=vreplay.BOUNDS)
    info["ok"] = bool(m and m.group(1) == "ok" and int(m.group(3)) == 0 and w is None)
    _res[repo] = info
    return info
