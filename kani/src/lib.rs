//! Loop-free, full-domain Kani harnesses (DESIGN 3.7): they discharge the assumptions the Verus units make about
//! derive-generated code on the REAL types (PartialOrd / PartialEq of Var, Term, BddNode) and re-check a few verbatim
//! one-liners on the real crate.  Every harness ranges over all usize values: complete proofs, not bounded.
#[cfg(kani)]
mod proofs {
    use adf_bdd::datatypes::{BddNode, ModelCounts, Term, Var};
    #[kani::proof]
    fn var_order_is_usize_order() {
        let a: usize = kani::any(); let b: usize = kani::any();
        assert_eq!(Var(a) < Var(b), a < b);
        assert_eq!(Var(a) > Var(b), a > b);
        assert_eq!(Var(a) >= Var(b), a >= b);
        assert_eq!(Var(a) <= Var(b), a <= b);
        assert_eq!(Var(a) == Var(b), a == b);
    }
    #[kani::proof]
    fn term_eq_is_usize_eq() {
        let a: usize = kani::any(); let b: usize = kani::any();
        assert_eq!(Term(a) == Term(b), a == b);
        assert_eq!(Term(a).is_truth_value(), a <= 1);
        assert_eq!(Term(a).is_true(), a == 1);
        assert_eq!(Term(a).value(), a);
    }
    #[kani::proof]
    fn bddnode_eq_is_fieldwise() {
        let (v1, l1, h1): (usize, usize, usize) = (kani::any(), kani::any(), kani::any());
        let (v2, l2, h2): (usize, usize, usize) = (kani::any(), kani::any(), kani::any());
        let n1 = BddNode::new(Var(v1), Term(l1), Term(h1)); let n2 = BddNode::new(Var(v2), Term(l2), Term(h2));
        assert_eq!(n1 == n2, v1 == v2 && l1 == l2 && h1 == h2);
        assert!(n1.var() == Var(v1) && n1.lo() == Term(l1) && n1.hi() == Term(h1));
    }
    #[kani::proof]
    fn var_is_constant() {
        let a: usize = kani::any();
        assert_eq!(Var(a).is_constant(), a >= usize::MAX - 1);
        assert!(Var::TOP.is_constant() && Var::BOT.is_constant());
    }
    #[kani::proof]
    fn compare_inf_truth_table() {
        let a: usize = kani::any(); let b: usize = kani::any();
        let tvo = |x: usize| if x == 1 { Some(true) } else if x == 0 { Some(false) } else { None };
        assert_eq!(Term(a).compare_inf(&Term(b)), tvo(a) == tvo(b));
    }
    // ---- the outlined std expressions (rule O): their assumed "textbook" contracts, proved over the full domain
    #[kani::proof]
    fn outlined_min_max() {
        let a: usize = kani::any(); let b: usize = kani::any();
        assert_eq!(a.min(b), if a <= b { a } else { b });
        assert_eq!(std::cmp::max(a, b), if a >= b { a } else { b });
        assert_eq!(std::cmp::min(a, b), if a <= b { a } else { b });
    }
    #[kani::proof]
    #[kani::unwind(8)]
    fn outlined_pow2() {
        let e: u32 = kani::any();
        kani::assume(e < 64);
        assert_eq!(2usize.pow(e), 1usize << e);
    }
    #[kani::proof]
    fn outlined_then_some_and_result_and() {
        let c: bool = kani::any(); let x: usize = kani::any();
        assert_eq!(c.then_some(x), if c { Some(x) } else { None });
        let a: Result<u8, u8> = if kani::any() { Ok(kani::any()) } else { Err(kani::any()) };
        let b: Result<u16, u8> = if kani::any() { Ok(kani::any()) } else { Err(kani::any()) };
        assert_eq!(a.and(b), match a { Ok(_) => b, Err(e) => Err(e) });
    }
    #[kani::proof]
    fn outlined_conversions() {
        let x: usize = kani::any();
        let r: Result<u32, _> = x.try_into();
        assert_eq!(r.is_ok(), x <= u32::MAX as usize);
        if let Ok(v) = r { assert_eq!(v as usize, x); }
        let y: u64 = kani::any();
        let q: Result<usize, _> = y.try_into();
        assert!(q.is_ok() && q.unwrap() as u64 == y);           // 64-bit target
        assert!(usize::try_from(y).is_ok() && usize::try_from(y).unwrap() as u64 == y);
    }
    #[kani::proof]
    fn no_inf_inconsistency_truth_table() {
        let a: usize = kani::any(); let b: usize = kani::any();
        let tvo = |x: usize| if x == 1 { Some(true) } else if x == 0 { Some(false) } else { None };
        assert_eq!(Term(a).no_inf_inconsistency(&Term(b)), tvo(a) == tvo(b) || tvo(a).is_none());
    }
    #[kani::proof]
    fn model_counts() {
        let c: usize = kani::any(); let m: usize = kani::any();
        let mc: ModelCounts = (c, m).into();
        assert_eq!(mc.more_models(), m >= c);
        assert_eq!(mc.minimum(), if m <= c { m } else { c });
    }
}
