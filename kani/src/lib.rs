//! Loop-free, full-domain Kani harnesses (DESIGN 3.7): they discharge the assumptions the Verus units make about
//! derive-generated code on the REAL types (PartialOrd / PartialEq of Var, Term, BddNode) and re-check a few verbatim
//! one-liners on the real crate.  Every harness ranges over all usize values: complete proofs, not bounded.
#[cfg(kani)]
mod proofs {
    use adf_bdd::datatypes::{BddNode, ModelCounts, Term, Var};
    #[kani::proof]
    fn var_order_is_usize_order() {
        let a: usize = kani::any(); let b: usize = kani::any();
        assert_eq!(Var(a) < Var(b), a < b);
        assert_eq!(Var(a) > Var(b), a > b);
        assert_eq!(Var(a) >= Var(b), a >= b);
        assert_eq!(Var(a) <= Var(b), a <= b);
        assert_eq!(Var(a) == Var(b), a == b);
    }
    #[kani::proof]
    fn term_eq_is_usize_eq() {
        let a: usize = kani::any(); let b: usize = kani::any();
        assert_eq!(Term(a) == Term(b), a == b);
        assert_eq!(Term(a).is_truth_value(), a <= 1);
        assert_eq!(Term(a).is_true(), a == 1);
        assert_eq!(Term(a).value(), a);
    }
    #[kani::proof]
    fn bddnode_eq_is_fieldwise() {
        let (v1, l1, h1): (usize, usize, usize) = (kani::any(), kani::any(), kani::any());
        let (v2, l2, h2): (usize, usize, usize) = (kani::any(), kani::any(), kani::any());
        let n1 = BddNode::new(Var(v1), Term(l1), Term(h1)); let n2 = BddNode::new(Var(v2), Term(l2), Term(h2));
        assert_eq!(n1 == n2, v1 == v2 && l1 == l2 && h1 == h2);
        assert!(n1.var() == Var(v1) && n1.lo() == Term(l1) && n1.hi() == Term(h1));
    }
    #[kani::proof]
    fn var_is_constant() {
        let a: usize = kani::any();
        assert_eq!(Var(a).is_constant(), a >= usize::MAX - 1);
        assert!(Var::TOP.is_constant() && Var::BOT.is_constant());
    }
    #[kani::proof]
    fn compare_inf_truth_table() {
        let a: usize = kani::any(); let b: usize = kani::any();
        let tvo = |x: usize| if x == 1 { Some(true) } else if x == 0 { Some(false) } else { None };
        assert_eq!(Term(a).compare_inf(&Term(b)), tvo(a) == tvo(b));
    }
    #[kani::proof]
    fn model_counts() {
        let c: usize = kani::any(); let m: usize = kani::any();
        let mc: ModelCounts = (c, m).into();
        assert_eq!(mc.more_models(), m >= c);
        assert_eq!(mc.minimum(), if m <= c { m } else { c });
    }
}
