// outlined std expressions shared by several units (rule O): the body is the very expression, the ensures its textbook meaning
#[verifier::external_body]
fn __o_then_some<T>(c: bool, x: T) -> (r: Option<T>) ensures r == (if c { Some(x) } else { None::<T> }) { c.then_some(x) }
// length of `s[a..b]` (std panics unless a <= b <= len: that is the precondition)
fn __o_slice_range_len(len: usize, a: usize, b: usize) -> (r: usize) requires a <= b <= len ensures r == b - a { b - a }
// `zip` stops at the shorter source (verified helper, not assumed)
fn __o_min_len(a: usize, b: usize) -> (r: usize) ensures r == (if a <= b { a } else { b }) { if a <= b { a } else { b } }
// std Result::and: the argument has already been evaluated; the first Err wins
#[verifier::external_body]
fn __o_result_and<T, E, U>(a: Result<T, E>, b: Result<U, E>) -> (r: Result<U, E>) ensures r == (match a { Ok(_) => b, Err(e) => Err(e) }) { a.and(b) }
// slice -> Vec conversion (`.into()` / `.to_vec()` on &[Term]): vstd gives no spec, the textbook one is ASSUMED
#[verifier::external_body]
fn __o_slice_to_vec(s: &[Term]) -> (r: Vec<Term>) ensures r@ == s@ { s.into() }
