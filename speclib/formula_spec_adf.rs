// adf-unit part of formula_spec.rs
impl Adf {
    // ASSUMED: a fresh random generator (only heu_rand reads it)
    #[verifier::external_body] pub fn default_rng() -> StdRng { unimplemented!() }
    // the stored handle of every statement that has a formula denotes that formula's function (C09, native)
    pub open spec fn compiled(&self, p: &AdfParser) -> bool {
        &&& self.ac@.len() == p_n(p)
        &&& forall|k: int| 0 <= k < p_order(p).len() ==> den(self.bdd.nodes@, self.ac@[#[trigger] p_order(p)[k] as int].0 as int) == fsem(p_formula(p, k), &p_vc(p))
    }
}
pub proof fn lemma_atoms_mono(f: Formula, vc: &VarContainer, n: int, m: int)
    requires atoms_ok(f, vc, n), n <= m,
    ensures atoms_ok(f, vc, m)
    decreases f
{
    match f {
        Formula::Bot => {}, Formula::Top => {}, Formula::Atom(a) => {},
        Formula::Not(x) => { lemma_atoms_mono(*x, vc, n, m); }
        Formula::And(x, y) => { lemma_atoms_mono(*x, vc, n, m); lemma_atoms_mono(*y, vc, n, m); }
        Formula::Or(x, y) => { lemma_atoms_mono(*x, vc, n, m); lemma_atoms_mono(*y, vc, n, m); }
        Formula::Imp(x, y) => { lemma_atoms_mono(*x, vc, n, m); lemma_atoms_mono(*y, vc, n, m); }
        Formula::Xor(x, y) => { lemma_atoms_mono(*x, vc, n, m); lemma_atoms_mono(*y, vc, n, m); }
        Formula::Iff(x, y) => { lemma_atoms_mono(*x, vc, n, m); lemma_atoms_mono(*y, vc, n, m); }
    }
}
// a formula over declared statements denotes a function of the declared statements only
pub proof fn lemma_fsem_dep(f: Formula, vc: &VarContainer, n: int)
    requires atoms_ok(f, vc, n),
    ensures dep_below(fsem(f, vc), n)
    decreases f
{
    match f {
        Formula::Bot => { lemma_dep_const(false, n); }, Formula::Top => { lemma_dep_const(true, n); },
        Formula::Atom(a) => { lemma_dep_var(vc_index(vc, a@).unwrap(), n); },
        Formula::Not(x) => { lemma_fsem_dep(*x, vc, n); lemma_dep_not(fsem(*x, vc), n); }
        Formula::And(x, y) => { lemma_fsem_dep(*x, vc, n); lemma_fsem_dep(*y, vc, n); lemma_dep_bin(fsem(*x, vc), fsem(*y, vc), n); }
        Formula::Or(x, y) => { lemma_fsem_dep(*x, vc, n); lemma_fsem_dep(*y, vc, n); lemma_dep_bin(fsem(*x, vc), fsem(*y, vc), n); }
        Formula::Imp(x, y) => { lemma_fsem_dep(*x, vc, n); lemma_fsem_dep(*y, vc, n); lemma_dep_bin(fsem(*x, vc), fsem(*y, vc), n); }
        Formula::Xor(x, y) => { lemma_fsem_dep(*x, vc, n); lemma_fsem_dep(*y, vc, n); lemma_dep_bin(fsem(*x, vc), fsem(*y, vc), n); }
        Formula::Iff(x, y) => { lemma_fsem_dep(*x, vc, n); lemma_fsem_dep(*y, vc, n); lemma_dep_bin(fsem(*x, vc), fsem(*y, vc), n); }
    }
}
