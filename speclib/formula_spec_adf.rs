// adf-unit part of formula_spec.rs
impl Adf {
    // ASSUMED: a fresh random generator (only heu_rand reads it)
    #[verifier::external_body] pub fn default_rng() -> StdRng { unimplemented!() }
    // the stored handle of every statement that has a formula denotes that formula's function (C09, native)
    pub open spec fn compiled(&self, p: &AdfParser) -> bool {
        &&& self.ac@.len() == p_n(p)
        &&& forall|k: int| 0 <= k < p_order(p).len() ==> den(self.bdd.nodes@, self.ac@[#[trigger] p_order(p)[k] as int].0 as int) == fsem(p_formula(p, k), &p_vc(p))
    }
}
