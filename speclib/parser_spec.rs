// C10: the label order of the parser (namelist) and its inverse map (dict) under the sorting functions.
// rule R (locks): Arc<RwLock<T>> fields are plain T here; sharing with VarContainer and lock poisoning are not modelled.
pub mod keymodel_string {
    use super::*;
    #[verifier::external_body]
    pub broadcast proof fn axiom_key_string() ensures #[trigger] obeys_key_model::<String>() {}
}
broadcast use keymodel_string::axiom_key_string;
pub open spec fn names_distinct(s: Seq<String>) -> bool { forall|i: int, j: int| 0 <= i < j < s.len() ==> s[i] != s[j] }
// b is a rearrangement of a: index maps in both directions
pub open spec fn perm_wit(p: Seq<int>, q: Seq<int>, a: Seq<String>, b: Seq<String>) -> bool {
    &&& a.len() == b.len() && p.len() == a.len() && q.len() == a.len()
    &&& forall|i: int| 0 <= i < a.len() ==> 0 <= #[trigger] p[i] < b.len() && a[i] == b[p[i]]
    &&& forall|j: int| 0 <= j < b.len() ==> 0 <= #[trigger] q[j] < a.len() && b[j] == a[q[j]]
}
pub open spec fn is_perm(a: Seq<String>, b: Seq<String>) -> bool { exists|p: Seq<int>, q: Seq<int>| perm_wit(p, q, a, b) }
// byte-wise order of str (String's Ord) and the "natural" order of the lexical_sort crate: uninterpreted, only named
pub uninterp spec fn str_le(a: Seq<char>, b: Seq<char>) -> bool;
pub uninterp spec fn natural_le(a: Seq<char>, b: Seq<char>) -> bool;
pub open spec fn sorted_bytes(s: Seq<String>) -> bool { forall|i: int, j: int| 0 <= i < j < s.len() ==> str_le((#[trigger] s[i])@, (#[trigger] s[j])@) }
pub open spec fn sorted_natural(s: Seq<String>) -> bool { forall|i: int, j: int| 0 <= i < j < s.len() ==> natural_le((#[trigger] s[i])@, (#[trigger] s[j])@) }
// ASSUMED (std): slice::sort_unstable on Vec<String> rearranges into byte-wise order
#[verifier::external_body]
fn __o_sort_unstable(v: &mut Vec<String>) ensures is_perm(final(v)@, old(v)@), sorted_bytes(final(v)@) { v.sort_unstable() }
// ASSUMED (lexical_sort): string_sort_unstable(natural_lexical_cmp) rearranges into the crate's natural order
#[verifier::external_body]
fn __o_sort_natural(v: &mut Vec<String>) ensures is_perm(final(v)@, old(v)@), sorted_natural(final(v)@) { unimplemented!() }
// the dictionary is exactly the inverse of the label list
pub open spec fn dict_inv(names: Seq<String>, dict: Map<String, usize>) -> bool {
    &&& forall|i: int| 0 <= i < names.len() ==> dict.contains_key(#[trigger] names[i]) && dict[names[i]] == i
    &&& forall|k: String| #[trigger] dict.contains_key(k) ==> exists|i: int| 0 <= i < names.len() && #[trigger] names[i] == k
}
pub proof fn lemma_perm_distinct(a: Seq<String>, b: Seq<String>)
    requires is_perm(a, b), names_distinct(b),
    ensures names_distinct(a)
{
    let (p, q) = choose|p: Seq<int>, q: Seq<int>| perm_wit(p, q, a, b);
    // a[i] == a[j] ==> b[p i] == b[p j] ==> p i == p j; and i = q-position... use the inverse direction: count argument avoided:
    // from b[j] == a[q[j]] and distinct b we get q injective; p o q need not be the identity, so argue through b directly
    assert forall|i: int, j: int| 0 <= i < j < a.len() implies a[i] != a[j] by {
        if a[i] == a[j] {
            // every b[k] equals some a[q k]; a has n entries, two of them equal: the n distinct values of b must fit into at most n-1 values
            lemma_pigeon(a, b, p, q, i, j);
        }
    }
}
// if a has a repeated value and every (pairwise different) entry of b occurs in a, then |b| <= |a| - 1: contradiction.
// Proved through the index maps: q is injective (b distinct), hence a bijection of [0,n) (lemma_inj_surj), so i and j are both hit:
// i = q[x], j = q[y], x != y, b[x] = a[i] = a[j] = b[y] - contradiction.
pub proof fn lemma_pigeon(a: Seq<String>, b: Seq<String>, p: Seq<int>, q: Seq<int>, i: int, j: int)
    requires perm_wit(p, q, a, b), names_distinct(b), 0 <= i < j < a.len(), a[i] == a[j],
    ensures false
{
    let n = a.len() as int;
    assert forall|x: int, y: int| 0 <= x < y < n implies q[x] != q[y] by { if q[x] == q[y] { assert(b[x] == a[q[x]]); assert(b[y] == a[q[y]]); } }
    lemma_inj_surj(q, n, i);
    lemma_inj_surj(q, n, j);
    let x = choose|x: int| 0 <= x < n && q[x] == i;
    let y = choose|y: int| 0 <= y < n && q[y] == j;
    assert(b[x] == a[q[x]]); assert(b[y] == a[q[y]]);
    assert(x != y);
}
// an injective map of [0,n) into [0,n) hits every value (induction on n, removing the pre-image of n-1)
pub proof fn lemma_inj_surj(q: Seq<int>, n: int, v: int)
    requires q.len() == n, 0 <= v < n, forall|x: int| 0 <= x < n ==> 0 <= #[trigger] q[x] < n, forall|x: int, y: int| 0 <= x < y < n ==> q[x] != q[y],
    ensures exists|x: int| 0 <= x < n && q[x] == v
    decreases n
{
    if forall|x: int| 0 <= x < n ==> q[x] != v {
        // shrink: drop position n-1 and rename the value n-1 (if used) to v, which is unused: an injective map of [0,n-1) into [0,n-1) missing nothing new...
        // simpler: the n values q[0..n) are pairwise different and all differ from v, so they are n different values in a set of n-1: impossible
        lemma_no_inj(q, n, v);
    }
}
// there is no injective q: [0,n) -> [0,n) \ {v}
pub proof fn lemma_no_inj(q: Seq<int>, n: int, v: int)
    requires q.len() == n, 0 <= v < n, forall|x: int| 0 <= x < n ==> 0 <= #[trigger] q[x] < n && q[x] != v, forall|x: int, y: int| 0 <= x < y < n ==> q[x] != q[y],
    ensures false
    decreases n
{
    if n == 1 { assert(0 <= q[0] < 1 && q[0] != v); }
    else {
        // make the hole the top value n-1: swap the roles of v and n-1 in the values
        let r = Seq::new(n as nat, |x: int| if q[x] == n - 1 { v } else { q[x] });
        // r: [0,n) -> [0,n-1) injective (v was unused, n-1 is now unused)
        assert forall|x: int| 0 <= x < n implies 0 <= #[trigger] r[x] < n - 1 by { if q[x] == n - 1 { } else { assert(q[x] != n - 1); if v == n - 1 { } } }
        assert forall|x: int, y: int| 0 <= x < y < n implies r[x] != r[y] by { assert(q[x] != q[y]); }
        // restrict to the first n-1 positions and fill the hole r[n-1] (a value below n-1 that no other position takes)
        let h = r[n - 1];
        let s = Seq::new((n - 1) as nat, |x: int| r[x]);
        assert forall|x: int| 0 <= x < n - 1 implies 0 <= #[trigger] s[x] < n - 1 && s[x] != h by { assert(r[x] != r[n - 1]); }
        assert forall|x: int, y: int| 0 <= x < y < n - 1 implies s[x] != s[y] by { assert(r[x] != r[y]); }
        lemma_no_inj(s, n - 1, h);
    }
}
// after regenerate_indizes on a duplicate-free list whose labels are exactly the dictionary's keys, the dictionary is the inverse
pub proof fn lemma_perm_keys(a: Seq<String>, b: Seq<String>, k: String)
    requires is_perm(a, b),
    ensures (exists|i: int| 0 <= i < b.len() && #[trigger] b[i] == k) ==> (exists|i: int| 0 <= i < a.len() && #[trigger] a[i] == k)
{
    let (p, q) = choose|p: Seq<int>, q: Seq<int>| perm_wit(p, q, a, b);
    if exists|i: int| 0 <= i < b.len() && #[trigger] b[i] == k {
        let i = choose|i: int| 0 <= i < b.len() && #[trigger] b[i] == k;
        assert(b[i] == a[q[i]]);
        assert(a[q[i]] == k);
    }
}

// ---- the nom side of the registration closures, outlined (rule O).  ASSUMED nothing about the recognised text (C08);
// the label handed back is an arbitrary string slice
pub struct NomErr { pub _p: u8 }
pub type IResult<I, O> = Result<(I, O), NomErr>;
#[verifier::external_body]
fn __o_nom_statement<'x>(input: &'x str) -> (r: IResult<&'x str, &'x str>) { unimplemented!() }
// ASSUMED (std): HashMap<String, _>::contains_key(&str) looks the string up; String::from(&str) has the same characters
#[verifier::external_body]
fn __o_dict_has(dict: &HashMap<String, usize>, s: &str) -> (r: bool) ensures r == (exists|k: String| #[trigger] dict@.contains_key(k) && k@ == s@) { unimplemented!() }
#[verifier::external_body]
fn __o_string_from(s: &str) -> (r: String) ensures r@ == s@ { String::from(s) }
#[verifier::external_body]
fn __o_nom_ac<'x>(input: &'x str) -> (r: IResult<&'x str, (&'x str, Formula<'x>)>) { unimplemented!() }
