#![allow(unused_imports, unused_variables, unused_mut, dead_code, non_snake_case, unused_parens, unused_braces, unused_assignments)]
use vstd::prelude::*;
use std::collections::HashMap;
use std::collections::HashSet;
use std::cmp::min;
use vstd::std_specs::hash::*;
use vstd::std_specs::cmp::*;
use std::cmp::Ordering;
use vstd::arithmetic::power2::pow2;
// rule D4: logging becomes a no-op (arguments are not evaluated)
#[allow(unused_macros)]
mod log {
    macro_rules! noop { ($($t:tt)*) => { () } }
    pub(crate) use noop as trace;
    pub(crate) use noop as debug;
    pub(crate) use noop as info;
    pub(crate) use noop as warn;
    pub(crate) use noop as error;
}
// the flat unit file has no module tree: crate::datatypes::X, crate::nogoods::X are X
#[allow(unused_imports)] pub mod datatypes { pub use super::*; }
#[allow(unused_imports)] pub mod nogoods { pub use super::*; }
