use vstd::prelude::*;
use std::collections::HashMap;
use std::collections::HashSet;
use std::cmp::min;
use vstd::std_specs::hash::*;
use vstd::std_specs::cmp::*;
use std::cmp::Ordering;
#[allow(unused_macros)]
mod log {
    macro_rules! noop { ($($t:tt)*) => { () } }
    pub(crate) use noop as trace;
    pub(crate) use noop as debug;
}
