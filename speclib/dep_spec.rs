// the support bound all_dep_below (every condition depends on declared statements only) on the ways into the native code
// other than Adf::from_parser: it carries over the biodivine bridge (C09: den(handle) == bio_den(diagram)) and over the
// pre-grounding of the hybrid back-end (every entry is a cofactor of the original condition)
pub proof fn lemma_bridge_dep(nodes: Seq<BddNode>, handles: Seq<Term>, gs: Seq<BF>)
    requires handles.len() == gs.len(), all_dep_below(gs), forall|i: int| 0 <= i < gs.len() ==> den(nodes, (#[trigger] handles[i]).0 as int) == gs[i],
    ensures all_dep_below(dens(nodes, handles))
{
    assert forall|i: int| 0 <= i < dens(nodes, handles).len() implies dep_below(#[trigger] dens(nodes, handles)[i], dens(nodes, handles).len() as int) by { assert(dens(nodes, handles)[i] == gs[i]); }
}
pub proof fn lemma_pregrounded_dep(fs: Seq<BF>, r: Seq<Term>, gs: Seq<BF>)
    requires r.len() == fs.len(), r.len() < usize::MAX, gs.len() == fs.len(), all_dep_below(fs), forall|i: int| 0 <= i < fs.len() ==> (#[trigger] gs[i]) == cof(fs[i], r, r.len() as int),
    ensures all_dep_below(gs)
{
    assert forall|i: int| 0 <= i < gs.len() implies dep_below(#[trigger] gs[i], gs.len() as int) by { lemma_dep_cof(fs[i], fs.len() as int, r, r.len() as int); }
}
