// pointwise reading of the closed Boolean-function algebra (inside mod sp, where the definitions are visible); used by the C10 lemmas only
pub proof fn law_var_eval(v: usize, a: Asg) ensures bf_var(v)(a) == a(v) { }
pub proof fn law_ops_eval(f: BF, g: BF, a: Asg)
    ensures bf_not(f)(a) == !f(a), bf_and(f, g)(a) == (f(a) && g(a)), bf_or(f, g)(a) == (f(a) || g(a)),
        bf_imp(f, g)(a) == (f(a) ==> g(a)), bf_iff(f, g)(a) == (f(a) == g(a)), bf_xor(f, g)(a) == (f(a) != g(a))
{ }
