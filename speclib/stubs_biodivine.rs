// rule S: biodivine_lib_bdd as opaque stubs.  Every `ensures` is an ASSUMED contract on the dependency:
// a Bdd denotes a Boolean function over variable indices (bio_den), constants are canonical (is_true / is_false),
// restrict is the cofactor by a list of (variable, value) pairs, eval_expression compiles an expression faithfully.
pub mod biodivine_lib_bdd {
    use super::*;
    #[verifier::external_body] pub struct Bdd { _p: core::marker::PhantomData<u8> }
    #[derive(Clone, Copy)]
    #[verifier::external_body] pub struct BddVariable { _p: core::marker::PhantomData<u8> }
    #[verifier::external_body] pub struct BddVariableSet { _p: core::marker::PhantomData<u8> }
    #[verifier::external_body] pub struct BddVariableSetBuilder { _p: core::marker::PhantomData<u8> }
    #[verifier::external_body] pub struct BddValuation { _p: core::marker::PhantomData<u8> }
    pub uninterp spec fn bio_den(b: &Bdd) -> BF;
    pub uninterp spec fn bv_index(v: BddVariable) -> usize;
    // number of variables of the variable set a diagram belongs to; value of a variable in a satisfying valuation
    pub uninterp spec fn bio_nv(b: &Bdd) -> nat;
    pub uninterp spec fn val_at(v: &BddValuation, x: usize) -> bool;
    pub uninterp spec fn vs_index(vs: &BddVariableSet, name: Seq<char>) -> Option<usize>;
    // cofactor by a list of (variable, value) pairs
    pub open spec fn restrict_list(f: BF, l: Seq<(BddVariable, bool)>, k: int) -> BF
        decreases k
    { if k <= 0 { f } else { bf_restrict(restrict_list(f, l, k - 1), bv_index(l[k - 1].0), l[k - 1].1) } }
    impl Clone for Bdd { #[verifier::external_body] fn clone(&self) -> (r: Self) ensures bio_den(&r) == bio_den(self), bio_nv(&r) == bio_nv(self) { unimplemented!() } }
    impl Bdd {
        #[verifier::external_body] pub fn is_true(&self) -> (r: bool) ensures r == (bio_den(self) == bf_const(true)) { unimplemented!() }
        #[verifier::external_body] pub fn is_false(&self) -> (r: bool) ensures r == (bio_den(self) == bf_const(false)) { unimplemented!() }
        #[verifier::external_body] pub fn restrict(&self, variables: &[(BddVariable, bool)]) -> (r: Bdd)
            ensures bio_den(&r) == restrict_list(bio_den(self), variables@, variables@.len() as int) { unimplemented!() }
        #[verifier::external_body] pub fn and(&self, o: &Bdd) -> (r: Bdd) ensures bio_den(&r) == bf_and(bio_den(self), bio_den(o)), bio_nv(&r) == bio_nv(self) { unimplemented!() }
        #[verifier::external_body] pub fn iff(&self, o: &Bdd) -> (r: Bdd) ensures bio_den(&r) == bf_iff(bio_den(self), bio_den(o)), bio_nv(&r) == bio_nv(self) { unimplemented!() }
    }
    impl BddValuation {
        #[verifier::external_body] pub fn value(&self, variable: BddVariable) -> (r: bool) ensures r == val_at(self, bv_index(variable)) { unimplemented!() }
    }
    pub mod boolean_expression {
        // mirror of the dependency's public enum (an external type cannot be extracted)
        pub enum BooleanExpression {
            Const(bool), Variable(String), Not(Box<BooleanExpression>), And(Box<BooleanExpression>, Box<BooleanExpression>), Or(Box<BooleanExpression>, Box<BooleanExpression>),
            Xor(Box<BooleanExpression>, Box<BooleanExpression>), Imp(Box<BooleanExpression>, Box<BooleanExpression>), Iff(Box<BooleanExpression>, Box<BooleanExpression>),
        }
    }
    use boolean_expression::BooleanExpression;
    // the Boolean function written by an expression, relative to a variable set
    pub open spec fn esem(e: BooleanExpression, vs: &BddVariableSet) -> BF
        decreases e
    {
        match e {
            BooleanExpression::Const(b) => bf_const(b),
            BooleanExpression::Variable(s) => bf_var(vs_index(vs, s@).unwrap()),
            BooleanExpression::Not(x) => bf_not(esem(*x, vs)),
            BooleanExpression::And(x, y) => bf_and(esem(*x, vs), esem(*y, vs)),
            BooleanExpression::Or(x, y) => bf_or(esem(*x, vs), esem(*y, vs)),
            BooleanExpression::Xor(x, y) => bf_xor(esem(*x, vs), esem(*y, vs)),
            BooleanExpression::Imp(x, y) => bf_imp(esem(*x, vs), esem(*y, vs)),
            BooleanExpression::Iff(x, y) => bf_iff(esem(*x, vs), esem(*y, vs)),
        }
    }
    pub uninterp spec fn vs_n(vs: &BddVariableSet) -> nat;
    pub uninterp spec fn bld_names(b: &BddVariableSetBuilder) -> Seq<Seq<char>>;
    pub open spec fn str_views(v: Seq<&str>) -> Seq<Seq<char>> { Seq::new(v.len(), |i: int| v[i]@) }
    // position of a label in the builder's list (same definition as formula_spec.rs::names_index)
    pub open spec fn bld_index(names: Seq<Seq<char>>, s: Seq<char>) -> Option<usize> {
        if exists|i: int| 0 <= i < names.len() && names[i] == s { Some((choose|i: int| 0 <= i < names.len() && names[i] == s) as usize) } else { None }
    }
    // ASSUMED: variables are numbered in creation order; the set maps a label to its creation index.
    // (the dependency panics on duplicate labels, labels containing operator characters and beyond 65534 variables - not modelled)
    impl BddVariableSetBuilder {
        #[verifier::external_body] pub fn new() -> (r: BddVariableSetBuilder) ensures bld_names(&r) == Seq::<Seq<char>>::empty() { unimplemented!() }
        #[verifier::external_body] pub fn make_variables(&mut self, names: &[&str]) -> (r: Vec<BddVariable>)
            ensures bld_names(final(self)) == bld_names(old(self)) + str_views(names@) { unimplemented!() }
        #[verifier::external_body] pub fn build(self) -> (r: BddVariableSet)
            ensures vs_n(&r) == bld_names(&self).len(), forall|s: Seq<char>| #[trigger] vs_index(&r, s) == bld_index(bld_names(&self), s) { unimplemented!() }
    }
    impl BddVariableSet {
        #[verifier::external_body] pub fn eval_expression(&self, e: &BooleanExpression) -> (r: Bdd) ensures bio_den(&r) == esem(*e, self), bio_nv(&r) == vs_n(self) { unimplemented!() }
        #[verifier::external_body] pub fn mk_false(&self) -> (r: Bdd) ensures bio_den(&r) == bf_const(false) { unimplemented!() }
        #[verifier::external_body] pub fn variables(&self) -> (r: Vec<BddVariable>) ensures r@.len() == vs_n(self), forall|i: int| 0 <= i < r@.len() ==> bv_index(#[trigger] r@[i]) == i { unimplemented!() }
    }
}
