// C18: nogoods as partial assignments over u32 positions; a total assignment is a spec function u32 -> bool
use vstd::set_lib::*;

pub proof fn lemma_subset_len_eq(a: Set<u32>, b: Set<u32>)
    requires a.subset_of(b), a.len() == b.len(),
    ensures a =~= b
{
    if !(a =~= b) {
        let x = choose|x: u32| b.contains(x) && !a.contains(x);
        assert(a.subset_of(b.remove(x)));
        lemma_len_subset(a, b.remove(x));
    }
}
pub proof fn lemma_singleton(a: Set<u32>, m: u32)
    requires a.len() == 1, a.contains(m),
    ensures forall|x: u32| a.contains(x) ==> x == m
{
    assert forall|x: u32| a.contains(x) implies x == m by {
        if x != m {
            assert(a.remove(m).contains(x));
            assert(a.remove(m).len() == 0);
            assert(a.remove(m) =~= Set::<u32>::empty());
        }
    }
}
pub proof fn lemma_sxor_empty(a: Set<u32>, b: Set<u32>)
    ensures (sxor(a, b) =~= Set::<u32>::empty()) == (a =~= b)
{
    if sxor(a, b) =~= Set::<u32>::empty() {
        assert forall|x: u32| a.contains(x) == b.contains(x) by { assert(!sxor(a, b).contains(x)); }
    }
}
impl NoGood {
    pub open spec fn act(&self) -> Set<u32> { rb_view(&self.active) }
    pub open spec fn val(&self) -> Set<u32> { rb_view(&self.value) }
    // self (as a partial assignment) is contained in other
    pub open spec fn matches(&self, other: &NoGood) -> bool {
        self.act().subset_of(other.act()) && forall|x: u32| self.act().contains(x) ==> (self.val().contains(x) == other.val().contains(x))
    }
    // ASSUMED: derive(Default) / derive(Clone) of NoGood act field-wise on the two bitmaps
    #[verifier::external_body]
    pub fn default() -> (r: NoGood) ensures r.act() =~= Set::<u32>::empty(), r.val() =~= Set::<u32>::empty() { unimplemented!() }
    #[verifier::external_body]
    pub fn clone(&self) -> (r: NoGood) ensures r.act() == self.act(), r.val() == self.val() { unimplemented!() }
}
// the trait impl exists only so that `Vec<NoGood>::contains` type-checks inside the outlined helper below; the real text of
// `impl PartialEq for NoGood` is verified as the inherent function NoGood::eq__ng against same_ng
impl PartialEq for NoGood { #[verifier::external_body] fn eq(&self, other: &Self) -> bool { unimplemented!() } }
// ASSUMED: slice::contains is `any(|e| e == x)` with the PartialEq impl above
#[verifier::external_body]
fn __o_vec_contains(v: &Vec<NoGood>, x: &NoGood) -> (r: bool) ensures r == exists|j: int| 0 <= j < v@.len() && same_ng(#[trigger] &v@[j], x) { v.contains(x) }
pub open spec fn wf_ng(n: &NoGood) -> bool { n.val().subset_of(n.act()) }
pub open spec fn same_ng(a: &NoGood, b: &NoGood) -> bool { a.act() =~= b.act() && a.val() =~= b.val() }
pub type TA = spec_fn(u32) -> bool;
// the total assignment i extends (matches) the nogood
pub open spec fn ext_of(i: TA, ng: &NoGood) -> bool { forall|x: u32| ng.act().contains(x) ==> i(x) == #[trigger] ng.val().contains(x) }
pub open spec fn avoids_all(i: TA, store: Seq<Vec<NoGood>>) -> bool {
    forall|b: int, j: int| 0 <= b < store.len() && 0 <= j < store[b]@.len() ==> !ext_of(i, #[trigger] &store[b]@[j])
}
// "excluded by the store" is !avoids_all(i, store)
pub open spec fn forced(store: Seq<Vec<NoGood>>, base: &NoGood, x: u32, v: bool) -> bool {
    forall|i: TA| ext_of(i, base) && #[trigger] avoids_all(i, store) ==> i(x) == v
}
// r extends base only by forced literals ("conclusions contain only assignments forced by the added nogoods")
pub open spec fn sound_ext(store: Seq<Vec<NoGood>>, base: &NoGood, r: &NoGood) -> bool {
    &&& base.matches(r)
    &&& forall|x: u32| r.act().contains(x) && !base.act().contains(x) ==> #[trigger] forced(store, base, x, r.val().contains(x))
}
// "no total extension of the interpretation avoids all added nogoods"
pub open spec fn no_extension(store: Seq<Vec<NoGood>>, base: &NoGood) -> bool {
    forall|i: TA| ext_of(i, base) ==> !#[trigger] avoids_all(i, store)
}
// bucket b holds only nogoods of size b + 1
pub open spec fn store_wf(st: Seq<Vec<NoGood>>) -> bool {
    forall|b: int, j: int| 0 <= b < st.len() && 0 <= j < st[b]@.len() ==> (#[trigger] st[b]@[j]).act().len() == b + 1 && wf_ng(&st[b]@[j])
}
pub open spec fn none_matches(st: Seq<Vec<NoGood>>, n: &NoGood) -> bool {
    forall|b: int, j: int| 0 <= b < st.len() && 0 <= j < st[b]@.len() ==> !(#[trigger] st[b]@[j]).matches(n)
}
// a literal concluded from a stored nogood is forced
pub proof fn lemma_conclude_forced(store: Seq<Vec<NoGood>>, b: int, j: int, base: &NoGood, p: usize, v: bool)
    requires
        0 <= b < store.len(), 0 <= j < store[b]@.len(), p <= u32::MAX,
        ({ let n = &store[b]@[j];
           n.act().contains(p as u32) && !base.act().contains(p as u32) && v == !n.val().contains(p as u32)
           && forall|x: u32| n.act().contains(x) && x != p as u32 ==> base.act().contains(x) && (n.val().contains(x) == base.val().contains(x)) }),
    ensures forced(store, base, p as u32, v)
{
    let n = &store[b]@[j];
    assert forall|i: TA| ext_of(i, base) && #[trigger] avoids_all(i, store) implies i(p as u32) == v by {
        assert(!ext_of(i, &store[b]@[j]));
        if i(p as u32) != v {
            assert forall|x: u32| n.act().contains(x) implies i(x) == #[trigger] n.val().contains(x) by {
                if x != p as u32 { assert(i(x) == base.val().contains(x)); }
            }
        }
    }
}
// the conclusion of one bucket merged into the accumulated result keeps the result a sound extension
pub proof fn lemma_merge_sound(st: Seq<Vec<NoGood>>, base: &NoGood, before: &NoGood, ng: &NoGood, after: &NoGood)
    requires
        sound_ext(st, base, before), wf_ng(base), wf_ng(before), wf_ng(ng),
        forall|x: u32| ng.act().contains(x) ==> forced(st, base, x, ng.val().contains(x)) && !base.act().contains(x),
        after.act() == before.act().union(ng.act()), after.val() == before.val().union(ng.val()),
    ensures sound_ext(st, base, after), wf_ng(after),
{
    assert(base.matches(after)) by {
        assert forall|x: u32| base.act().contains(x) implies (base.val().contains(x) == after.val().contains(x)) by { assert(!ng.act().contains(x)); }
    }
    assert forall|x: u32| after.act().contains(x) && !base.act().contains(x) implies #[trigger] forced(st, base, x, after.val().contains(x)) by {
        if ng.val().contains(x) {
            assert(ng.act().contains(x));
            assert(forced(st, base, x, ng.val().contains(x)));
        } else if before.act().contains(x) {
            assert(after.val().contains(x) == before.val().contains(x));
            assert(forced(st, base, x, before.val().contains(x)));
        } else {
            assert(ng.act().contains(x));
            assert(!before.val().contains(x));
            assert(forced(st, base, x, ng.val().contains(x)));
        }
    }
}
// a stored nogood contained in the (soundly extended) result or in the base leaves no extension
pub proof fn lemma_conflict(st: Seq<Vec<NoGood>>, base: &NoGood, result: &NoGood, b: int, j: int)
    requires sound_ext(st, base, result), 0 <= b < st.len(), 0 <= j < st[b]@.len(), st[b]@[j].matches(result) || st[b]@[j].matches(base),
    ensures no_extension(st, base)
{
    assert forall|i: TA| ext_of(i, base) implies !#[trigger] avoids_all(i, st) by {
        if avoids_all(i, st) {
            assert(!ext_of(i, &st[b]@[j]));
            assert forall|x: u32| result.act().contains(x) implies i(x) == #[trigger] result.val().contains(x) by {
                if base.act().contains(x) { } else { assert(forced(st, base, x, result.val().contains(x))); }
            }
            assert forall|x: u32| st[b]@[j].act().contains(x) implies i(x) == #[trigger] st[b]@[j].val().contains(x) by { }
        }
    }
}
// no stored nogood of size <= |base| + 1 matches base  ==>  none matches at all (larger ones cannot be contained)
pub proof fn lemma_none_matches(st: Seq<Vec<NoGood>>, base: &NoGood)
    requires store_wf(st), forall|b: int, j: int| 0 <= b < st.len() && 0 <= j < st[b]@.len() && b <= base.act().len() ==> !(#[trigger] st[b]@[j]).matches(base),
    ensures none_matches(st, base)
{
    assert forall|b: int, j: int| 0 <= b < st.len() && 0 <= j < st[b]@.len() implies !(#[trigger] st[b]@[j]).matches(base) by {
        if b > base.act().len() && st[b]@[j].matches(base) { lemma_len_subset(st[b]@[j].act(), base.act()); }
    }
}
// ---- what a vector of terms denotes as a nogood / interpretation
pub open spec fn is_tv(n: &NoGood, tv: Seq<Term>) -> bool {
    &&& forall|x: u32| n.act().contains(x) == (x < tv.len() && tv[x as int].0 <= 1)
    &&& forall|x: u32| n.val().contains(x) == (x < tv.len() && tv[x as int].0 == 1)
}
// update_term_vec as a function
pub open spec fn upd_tv(n: &NoGood, tv: Seq<Term>) -> Seq<Term> {
    Seq::new(tv.len(), |i: int| if n.act().contains(i as u32) { if n.val().contains(i as u32) { Term(1) } else { Term(0) } } else { tv[i] })
}
// excluded set after an addition (C18: "nothing forgotten, nothing invented")
pub open spec fn excl_add(old_st: Seq<Vec<NoGood>>, new_st: Seq<Vec<NoGood>>, ng: &NoGood) -> bool {
    forall|i: TA| #![trigger avoids_all(i, new_st)] avoids_all(i, new_st) == (avoids_all(i, old_st) && !ext_of(i, ng))
}
pub open spec fn excl_same(old_st: Seq<Vec<NoGood>>, new_st: Seq<Vec<NoGood>>) -> bool {
    forall|i: TA| #![trigger avoids_all(i, new_st)] avoids_all(i, new_st) == avoids_all(i, old_st)
}
// a nogood a contained in b excludes at least what b excludes
pub proof fn lemma_matches_ext(a: &NoGood, b: &NoGood, i: TA)
    requires a.matches(b), ext_of(i, b), ensures ext_of(i, a)
{
    assert forall|x: u32| a.act().contains(x) implies i(x) == #[trigger] a.val().contains(x) by { assert(b.act().contains(x)); assert(i(x) == b.val().contains(x)); }
}
// ---- add_ng: excluded-set bookkeeping
// relation between an old bucket o and the bucket n left by `retain(|x| !ng.is_violating(x))` (when `filtered`)
pub open spec fn bucket_rel(o: Seq<NoGood>, n: Seq<NoGood>, ng: &NoGood, filtered: bool) -> bool {
    if !filtered { n == o } else {
        &&& forall|j: int| 0 <= j < n.len() ==> o.contains(#[trigger] n[j])
        &&& forall|j2: int| 0 <= j2 < o.len() ==> n.contains(#[trigger] o[j2]) || ng.matches(&o[j2])
    }
}
pub proof fn lemma_bucket_rel_refl(o: Seq<NoGood>, ng: &NoGood, filtered: bool)
    ensures bucket_rel(o, o, ng, filtered)
{
    assert forall|j: int| 0 <= j < o.len() implies o.contains(#[trigger] o[j]) by { }
}
// one step of the lowered `retain`: element at position ri of pv kept (nv == pv) or removed because ng matches it
pub proof fn lemma_retain_step(o: Seq<NoGood>, pv: Seq<NoGood>, nv: Seq<NoGood>, ng: &NoGood, ri: int)
    requires 0 <= ri < pv.len(), nv == pv.remove(ri), ng.matches(&pv[ri]),
        forall|j: int| 0 <= j < pv.len() ==> o.contains(#[trigger] pv[j]),
        forall|j2: int| 0 <= j2 < o.len() ==> pv.contains(#[trigger] o[j2]) || ng.matches(&o[j2]),
    ensures
        forall|j: int| 0 <= j < nv.len() ==> o.contains(#[trigger] nv[j]),
        forall|j2: int| 0 <= j2 < o.len() ==> nv.contains(#[trigger] o[j2]) || ng.matches(&o[j2]),
{
    assert forall|j: int| 0 <= j < nv.len() implies o.contains(#[trigger] nv[j]) by {
        if j < ri { assert(nv[j] == pv[j]); } else { assert(nv[j] == pv[j + 1]); }
    }
    assert forall|j2: int| 0 <= j2 < o.len() implies nv.contains(#[trigger] o[j2]) || ng.matches(&o[j2]) by {
        if pv.contains(o[j2]) && !ng.matches(&o[j2]) {
            let j = choose|j: int| 0 <= j < pv.len() && pv[j] == o[j2];
            assert(j != ri);
            if j < ri { assert(nv[j] == o[j2]); } else { assert(nv[j - 1] == o[j2]); }
        }
    }
}
pub proof fn lemma_excl_subsumed(st: Seq<Vec<NoGood>>, ng: &NoGood, b: int, j: int)
    requires 0 <= b < st.len(), 0 <= j < st[b]@.len(), st[b]@[j].matches(ng),
    ensures excl_add(st, st, ng)
{
    assert forall|i: TA| #![trigger avoids_all(i, st)] avoids_all(i, st) == (avoids_all(i, st) && !ext_of(i, ng)) by {
        if avoids_all(i, st) && ext_of(i, ng) { lemma_matches_ext(&st[b]@[j], ng, i); assert(!ext_of(i, &st[b]@[j])); }
    }
}
pub proof fn lemma_excl_push(st0: Seq<Vec<NoGood>>, st1: Seq<Vec<NoGood>>, ng: &NoGood, idx: int)
    requires 0 <= idx < st0.len(), st1.len() == st0.len(), forall|b: int| 0 <= b < st0.len() && b != idx ==> (#[trigger] st1[b])@ == st0[b]@, st1[idx]@ == st0[idx]@.push(*ng),
    ensures excl_add(st0, st1, ng)
{
    assert forall|i: TA| #![trigger avoids_all(i, st1)] avoids_all(i, st1) == (avoids_all(i, st0) && !ext_of(i, ng)) by {
        if avoids_all(i, st1) {
            assert(st1[idx]@[st0[idx]@.len() as int] == *ng);
            assert(!ext_of(i, &st1[idx]@[st0[idx]@.len() as int]));
            assert forall|b: int, j: int| 0 <= b < st0.len() && 0 <= j < st0[b]@.len() implies !ext_of(i, #[trigger] &st0[b]@[j]) by {
                assert(st1[b]@[j] == st0[b]@[j]); assert(!ext_of(i, &st1[b]@[j]));
            }
        }
        if avoids_all(i, st0) && !ext_of(i, ng) {
            assert forall|b: int, j: int| 0 <= b < st1.len() && 0 <= j < st1[b]@.len() implies !ext_of(i, #[trigger] &st1[b]@[j]) by {
                if b == idx && j == st0[idx]@.len() { } else { assert(st1[b]@[j] == st0[b]@[j]); assert(!ext_of(i, &st0[b]@[j])); }
            }
        }
    }
}
pub proof fn lemma_excl_filtered(st0: Seq<Vec<NoGood>>, st1: Seq<Vec<NoGood>>, ng: &NoGood, idx: int)
    requires st1.len() == st0.len(), forall|b: int| 0 <= b < st0.len() ==> bucket_rel(#[trigger] st0[b]@, st1[b]@, ng, idx <= b),
    ensures forall|i: TA| #![trigger avoids_all(i, st1)] (avoids_all(i, st1) && !ext_of(i, ng)) == (avoids_all(i, st0) && !ext_of(i, ng))
{
    assert forall|i: TA| #![trigger avoids_all(i, st1)] (avoids_all(i, st1) && !ext_of(i, ng)) == (avoids_all(i, st0) && !ext_of(i, ng)) by {
        if avoids_all(i, st1) && !ext_of(i, ng) {
            assert forall|b: int, j: int| 0 <= b < st0.len() && 0 <= j < st0[b]@.len() implies !ext_of(i, #[trigger] &st0[b]@[j]) by {
                assert(bucket_rel(st0[b]@, st1[b]@, ng, idx <= b));
                if idx <= b {
                    if ng.matches(&st0[b]@[j]) { if ext_of(i, &st0[b]@[j]) { lemma_matches_ext(ng, &st0[b]@[j], i); } }
                    else { assert(st1[b]@.contains(st0[b]@[j])); let j1 = choose|j1: int| 0 <= j1 < st1[b]@.len() && st1[b]@[j1] == st0[b]@[j]; assert(!ext_of(i, &st1[b]@[j1])); }
                } else { assert(!ext_of(i, &st1[b]@[j])); }
            }
        }
        if avoids_all(i, st0) && !ext_of(i, ng) {
            assert forall|b: int, j: int| 0 <= b < st1.len() && 0 <= j < st1[b]@.len() implies !ext_of(i, #[trigger] &st1[b]@[j]) by {
                assert(bucket_rel(st0[b]@, st1[b]@, ng, idx <= b));
                if idx <= b { assert(st0[b]@.contains(st1[b]@[j])); let j2 = choose|j2: int| 0 <= j2 < st0[b]@.len() && st0[b]@[j2] == st1[b]@[j]; assert(!ext_of(i, &st0[b]@[j2])); }
                else { assert(!ext_of(i, &st0[b]@[j])); }
            }
        }
    }
}
pub proof fn lemma_store_wf_filtered(st0: Seq<Vec<NoGood>>, st1: Seq<Vec<NoGood>>, ng: &NoGood, idx: int)
    requires store_wf(st0), st1.len() == st0.len(), forall|b: int| 0 <= b < st0.len() ==> bucket_rel(#[trigger] st0[b]@, st1[b]@, ng, idx <= b),
    ensures store_wf(st1)
{
    assert forall|b: int, j: int| 0 <= b < st1.len() && 0 <= j < st1[b]@.len() implies (#[trigger] st1[b]@[j]).act().len() == b + 1 && wf_ng(&st1[b]@[j]) by {
        assert(bucket_rel(st0[b]@, st1[b]@, ng, idx <= b));
        if idx <= b { assert(st0[b]@.contains(st1[b]@[j])); let j2 = choose|j2: int| 0 <= j2 < st0[b]@.len() && st0[b]@[j2] == st1[b]@[j]; assert(st0[b]@[j2].act().len() == b + 1); }
        else { assert(st0[b]@[j].act().len() == b + 1); }
    }
}

// filtered store + pushed nogood: the complete effect of add_ng when the nogood is stored
pub proof fn lemma_add_ng_pushed(st0: Seq<Vec<NoGood>>, st1: Seq<Vec<NoGood>>, st2: Seq<Vec<NoGood>>, ng: &NoGood, idx: int)
    requires store_wf(st0), wf_ng(ng), ng.act().len() == idx + 1, 0 <= idx < st0.len(), st1.len() == st0.len(), st2.len() == st0.len(),
        forall|b: int| 0 <= b < st0.len() ==> bucket_rel(#[trigger] st0[b]@, st1[b]@, ng, idx <= b),
        forall|b: int| 0 <= b < st0.len() && b != idx ==> (#[trigger] st2[b])@ == st1[b]@, st2[idx]@ == st1[idx]@.push(*ng),
    ensures store_wf(st2), excl_add(st0, st2, ng), forall|k: nat| store_in(st0, k) && ng_in(ng, k) ==> #[trigger] store_in(st2, k)
{
    assert forall|k: nat| store_in(st0, k) && ng_in(ng, k) implies #[trigger] store_in(st2, k) by {
        assert forall|b: int, j: int| 0 <= b < st2.len() && 0 <= j < st2[b]@.len() implies ng_in(&(#[trigger] st2[b]@[j]), k) by {
            if b == idx && j == st1[idx]@.len() { } else {
                assert(st2[b]@[j] == st1[b]@[j]);
                assert(bucket_rel(st0[b]@, st1[b]@, ng, idx <= b));
                if idx <= b { assert(st0[b]@.contains(st1[b]@[j])); let j0 = choose|j0: int| 0 <= j0 < st0[b]@.len() && st0[b]@[j0] == st1[b]@[j]; assert(ng_in(&st0[b]@[j0], k)); } else { assert(st1[b]@ == st0[b]@); assert(ng_in(&st0[b]@[j], k)); }
            }
        }
    }
    lemma_store_wf_filtered(st0, st1, ng, idx);
    lemma_excl_filtered(st0, st1, ng, idx);
    lemma_excl_push(st1, st2, ng, idx);
    assert forall|b: int, j: int| 0 <= b < st2.len() && 0 <= j < st2[b]@.len() implies (#[trigger] st2[b]@[j]).act().len() == b + 1 && wf_ng(&st2[b]@[j]) by {
        if b == idx && j == st1[idx]@.len() { } else { assert(st2[b]@[j] == st1[b]@[j]); }
    }
    assert forall|i: TA| #![trigger avoids_all(i, st2)] avoids_all(i, st2) == (avoids_all(i, st0) && !ext_of(i, ng)) by {
        assert(avoids_all(i, st2) == (avoids_all(i, st1) && !ext_of(i, ng)));
        assert((avoids_all(i, st1) && !ext_of(i, ng)) == (avoids_all(i, st0) && !ext_of(i, ng)));
    }
}
// every literal of the nogood / of every stored nogood is a position below k
pub open spec fn ng_in(g: &NoGood, k: nat) -> bool { forall|x: u32| #[trigger] g.act().contains(x) ==> x < k }
pub open spec fn store_in(st: Seq<Vec<NoGood>>, k: nat) -> bool { forall|b: int, j: int| 0 <= b < st.len() && 0 <= j < st[b]@.len() ==> ng_in(&(#[trigger] st[b]@[j]), k) }
// ---- conclusion_closure: statements over term vectors (a NoGood value cannot be built in spec code, its bitmaps are opaque)
pub open spec fn ext_tv(i: TA, tv: Seq<Term>) -> bool { forall|p: int| 0 <= p < tv.len() && !und(#[trigger] tv[p]) ==> i(p as u32) == (tv[p].0 == 1) }
pub proof fn lemma_ext_tv(i: TA, n: &NoGood, tv: Seq<Term>)
    requires is_tv(n, tv), tv.len() <= u32::MAX,
    ensures ext_of(i, n) == ext_tv(i, tv)
{
    if ext_of(i, n) { assert forall|p: int| 0 <= p < tv.len() && !und(#[trigger] tv[p]) implies i(p as u32) == (tv[p].0 == 1) by { assert(n.act().contains(p as u32)); assert(i(p as u32) == n.val().contains(p as u32)); } }
    if ext_tv(i, tv) { assert forall|x: u32| n.act().contains(x) implies i(x) == #[trigger] n.val().contains(x) by { assert(!und(tv[x as int])); } }
}
// v extends base only by literals forced by the store
pub open spec fn tv_forced_ext(store: Seq<Vec<NoGood>>, base: Seq<Term>, v: Seq<Term>) -> bool {
    &&& v.len() == base.len()
    &&& forall|p: int| 0 <= p < base.len() && !und(#[trigger] base[p]) ==> v[p] == base[p]
    &&& forall|p: int| 0 <= p < base.len() && und(#[trigger] v[p]) ==> v[p] == base[p]
    &&& forall|p: int| 0 <= p < base.len() && und(#[trigger] base[p]) && !und(v[p]) ==> forall|i: TA| ext_tv(i, base) && #[trigger] avoids_all(i, store) ==> i(p as u32) == (v[p].0 == 1)
}
pub open spec fn tv_no_extension(store: Seq<Vec<NoGood>>, base: Seq<Term>) -> bool { forall|i: TA| ext_tv(i, base) ==> !#[trigger] avoids_all(i, store) }
// every total assignment that extends base and avoids the store also extends a forced extension of base
pub proof fn lemma_forced_ext_keeps(store: Seq<Vec<NoGood>>, base: Seq<Term>, v: Seq<Term>, i: TA)
    requires tv_forced_ext(store, base, v), ext_tv(i, base), avoids_all(i, store),
    ensures ext_tv(i, v)
{
    assert forall|p: int| 0 <= p < v.len() && !und(#[trigger] v[p]) implies i(p as u32) == (v[p].0 == 1) by {
        if und(base[p]) { } else { assert(v[p] == base[p]); }
    }
}
// one closure step: cur is a forced extension of base, val a sound extension of ng(cur)  ==>  upd_tv(val, cur) is a forced extension of base
pub proof fn lemma_closure_step(store: Seq<Vec<NoGood>>, base: Seq<Term>, cur: Seq<Term>, ncur: &NoGood, val: &NoGood)
    requires tv_forced_ext(store, base, cur), is_tv(ncur, cur), cur.len() <= u32::MAX, sound_ext(store, ncur, val), wf_ng(val),
    ensures tv_forced_ext(store, base, upd_tv(val, cur))
{
    let nx = upd_tv(val, cur);
    assert forall|p: int| 0 <= p < base.len() && !und(#[trigger] base[p]) implies nx[p] == base[p] by {
        assert(cur[p] == base[p]);
        assert(ncur.act().contains(p as u32));
        if val.act().contains(p as u32) { assert(val.val().contains(p as u32) == ncur.val().contains(p as u32)); }
    }
    assert forall|p: int| 0 <= p < base.len() && und(#[trigger] base[p]) && !und(nx[p]) implies forall|i: TA| ext_tv(i, base) && #[trigger] avoids_all(i, store) ==> i(p as u32) == (nx[p].0 == 1) by {
        assert forall|i: TA| ext_tv(i, base) && #[trigger] avoids_all(i, store) implies i(p as u32) == (nx[p].0 == 1) by {
            lemma_forced_ext_keeps(store, base, cur, i);
            lemma_ext_tv(i, ncur, cur);
            if val.act().contains(p as u32) {
                if ncur.act().contains(p as u32) { assert(val.val().contains(p as u32) == ncur.val().contains(p as u32)); assert(i(p as u32) == ncur.val().contains(p as u32)); }
                else { assert(forced(store, ncur, p as u32, val.val().contains(p as u32))); }
            } else { assert(nx[p] == cur[p]); }
        }
    }
}
pub proof fn lemma_closure_conflict(store: Seq<Vec<NoGood>>, base: Seq<Term>, cur: Seq<Term>, ncur: &NoGood)
    requires tv_forced_ext(store, base, cur), is_tv(ncur, cur), cur.len() <= u32::MAX, no_extension(store, ncur),
    ensures tv_no_extension(store, base)
{
    assert forall|i: TA| ext_tv(i, base) implies !#[trigger] avoids_all(i, store) by {
        if avoids_all(i, store) { lemma_forced_ext_keeps(store, base, cur, i); lemma_ext_tv(i, ncur, cur); }
    }
}
pub proof fn lemma_forced_ext_refl(store: Seq<Vec<NoGood>>, base: Seq<Term>) ensures tv_forced_ext(store, base, base) {}
// number of undecided positions among the first k
pub open spec fn und_count(tv: Seq<Term>, k: int) -> nat decreases k { if k <= 0 { 0 } else { und_count(tv, k - 1) + if und(tv[k - 1]) { 1nat } else { 0nat } } }
pub proof fn lemma_upd_count(n: &NoGood, tv: Seq<Term>, k: int)
    requires 0 <= k <= tv.len(),
    ensures und_count(upd_tv(n, tv), k) <= und_count(tv, k),
        (exists|i: int| 0 <= i < k && n.act().contains(i as u32) && und(#[trigger] tv[i])) ==> und_count(upd_tv(n, tv), k) < und_count(tv, k),
    decreases k
{
    if k > 0 {
        lemma_upd_count(n, tv, k - 1);
        if exists|i: int| 0 <= i < k && n.act().contains(i as u32) && und(#[trigger] tv[i]) {
            let i0 = choose|i: int| 0 <= i < k && n.act().contains(i as u32) && und(#[trigger] tv[i]);
            if i0 < k - 1 { assert(und(tv[i0])); }
        }
    }
}
#[verifier::external_body]
fn __o_vec_as_slice(v: &Vec<Term>) -> (r: &[Term]) ensures r@ == v@ { v.as_slice() }

// ---- propagation strength (what the search's progress relies on; not part of C18's three clauses)
// n is unit under o: exactly one literal of n is not assigned by o and every other literal of n is matched by o
pub open spec fn unit_under(n: &NoGood, o: &NoGood) -> bool {
    n.act().difference(o.act()).len() == 1 && forall|x: u32| n.act().contains(x) && o.act().contains(x) ==> (n.val().contains(x) == o.val().contains(x))
}
pub open spec fn pairs_consistent(p: Seq<(usize, bool)>, k: int) -> bool { forall|i: int, j: int| 0 <= i < j < k && p[i].0 == p[j].0 ==> p[i].1 == p[j].1 }
pub open spec fn holds_pairs(n: &NoGood, p: Seq<(usize, bool)>, k: int) -> bool {
    forall|i: int| 0 <= i < k ==> n.act().contains((#[trigger] p[i]).0 as u32) && (n.val().contains(p[i].0 as u32) == p[i].1)
}
// the literal a unit nogood concludes: its one open variable, with the value that avoids the nogood
pub open spec fn unit_var(n: &NoGood, o: &NoGood) -> u32 { choose|x: u32| n.act().difference(o.act()).contains(x) }
pub open spec fn unit_pair(n: &NoGood, o: &NoGood) -> (usize, bool) { (unit_var(n, o) as usize, !n.val().contains(unit_var(n, o))) }
pub proof fn lemma_unit_var(n: &NoGood, o: &NoGood, p: u32)
    requires unit_under(n, o), n.act().contains(p), !o.act().contains(p),
    ensures unit_var(n, o) == p
{
    let d = n.act().difference(o.act());
    assert(d.contains(p));
    lemma_singleton(d, p);
}
// the conclusions of one size-bucket do not contradict each other
pub open spec fn bucket_consistent(bucket: Seq<NoGood>, o: &NoGood) -> bool {
    forall|i: int, j: int| 0 <= i < bucket.len() && 0 <= j < bucket.len() && #[trigger] unit_under(&bucket[i], o) && #[trigger] unit_under(&bucket[j], o)
        && unit_var(&bucket[i], o) == unit_var(&bucket[j], o) ==> unit_pair(&bucket[i], o).1 == unit_pair(&bucket[j], o).1
}
pub open spec fn has_pair(out: Seq<(usize, bool)>, p: (usize, bool)) -> bool { exists|m: int| 0 <= m < out.len() && out[m] == p }
pub open spec fn from_unit(bucket: Seq<NoGood>, k: int, o: &NoGood, p: (usize, bool)) -> bool { exists|j: int| 0 <= j < k && j < bucket.len() && #[trigger] unit_under(&bucket[j], o) && unit_pair(&bucket[j], o) == p }
// collected conclusions of the first k nogoods of a bucket: exactly the unit pairs
pub open spec fn collected(bucket: Seq<NoGood>, k: int, o: &NoGood, out: Seq<(usize, bool)>) -> bool {
    &&& forall|j: int| 0 <= j < k && j < bucket.len() && #[trigger] unit_under(&bucket[j], o) ==> has_pair(out, unit_pair(&bucket[j], o))
    &&& forall|m: int| 0 <= m < out.len() ==> from_unit(bucket, k, o, #[trigger] out[m])
}
pub proof fn lemma_collected_step(bucket: Seq<NoGood>, k: int, o: &NoGood, out: Seq<(usize, bool)>, c: Option<(usize, bool)>)
    requires 0 <= k < bucket.len(), collected(bucket, k, o, out), c.is_some() <==> unit_under(&bucket[k], o), c.is_some() ==> c.unwrap() == unit_pair(&bucket[k], o),
    ensures collected(bucket, k + 1, o, if c.is_some() { out.push(c.unwrap()) } else { out })
{
    let out2 = if c.is_some() { out.push(c.unwrap()) } else { out };
    assert forall|j: int| 0 <= j < k + 1 && j < bucket.len() && #[trigger] unit_under(&bucket[j], o) implies has_pair(out2, unit_pair(&bucket[j], o)) by {
        if j < k { let m = choose|m: int| 0 <= m < out.len() && out[m] == unit_pair(&bucket[j], o); assert(out2[m] == out[m]); }
        else { assert(out2[out.len() as int] == c.unwrap()); }
    }
    assert forall|m: int| 0 <= m < out2.len() implies from_unit(bucket, k + 1, o, #[trigger] out2[m]) by {
        if m < out.len() { assert(out2[m] == out[m]); assert(from_unit(bucket, k, o, out[m])); let j = choose|j: int| 0 <= j < k && j < bucket.len() && #[trigger] unit_under(&bucket[j], o) && unit_pair(&bucket[j], o) == out[m]; assert(unit_under(&bucket[j], o)); }
        else { assert(unit_under(&bucket[k], o)); }
    }
}
// a consistent bucket: the assignment built from its conclusions exists and holds every concluded variable
pub proof fn lemma_bucket_props(bucket: Seq<NoGood>, o: &NoGood, out: Seq<(usize, bool)>, n: Option<NoGood>)
    requires collected(bucket, bucket.len() as int, o, out),
        n.is_some() <==> (out.len() > 0 && pairs_consistent(out, out.len() as int)),
        n.is_some() ==> holds_pairs(&n.unwrap(), out, out.len() as int),
        bucket_consistent(bucket, o),
    ensures forall|j: int| 0 <= j < bucket.len() && #[trigger] unit_under(&bucket[j], o) ==> n.is_some() && n.unwrap().act().contains(unit_var(&bucket[j], o))
{
    assert forall|i: int, j: int| 0 <= i < j < out.len() && out[i].0 == out[j].0 implies out[i].1 == out[j].1 by {
        assert(from_unit(bucket, bucket.len() as int, o, out[i])); assert(from_unit(bucket, bucket.len() as int, o, out[j]));
        let a = choose|a: int| 0 <= a < bucket.len() && a < bucket.len() && #[trigger] unit_under(&bucket[a], o) && unit_pair(&bucket[a], o) == out[i];
        let b = choose|b: int| 0 <= b < bucket.len() && b < bucket.len() && #[trigger] unit_under(&bucket[b], o) && unit_pair(&bucket[b], o) == out[j];
        assert(unit_var(&bucket[a], o) as usize == out[i].0 && unit_var(&bucket[b], o) as usize == out[j].0);
        assert(unit_var(&bucket[a], o) == unit_var(&bucket[b], o));
    }
    assert(pairs_consistent(out, out.len() as int));
    assert forall|j: int| 0 <= j < bucket.len() && #[trigger] unit_under(&bucket[j], o) implies n.is_some() && n.unwrap().act().contains(unit_var(&bucket[j], o)) by {
        let m = choose|m: int| 0 <= m < out.len() && out[m] == unit_pair(&bucket[j], o);
        assert(out.len() > 0);
        assert(n.unwrap().act().contains(out[m].0 as u32));
    }
}
// unit propagation is complete for every eligible bucket whose conclusions do not contradict each other
pub open spec fn prop_complete(store: Seq<Vec<NoGood>>, o: &NoGood, r: &NoGood, upto: int) -> bool {
    forall|b: int, j: int| 0 <= b < upto && b < store.len() && b <= o.act().len() && 0 <= j < store[b]@.len() && #[trigger] unit_under(&store[b]@[j], o) && bucket_consistent(store[b]@, o)
        ==> r.act().contains(unit_var(&store[b]@[j], o))
}
pub proof fn lemma_unit_var_in(n: &NoGood, o: &NoGood)
    requires unit_under(n, o),
    ensures n.act().contains(unit_var(n, o)), !o.act().contains(unit_var(n, o))
{
    let d = n.act().difference(o.act());
    vstd::set::lemma_set_choose_len(d);
    assert(d.contains(d.choose()));
}
// no stored nogood of an eligible, conflict-free bucket is unit under the interpretation with its open variable inside the vector:
// the nogood closure has nothing (more) to derive there
pub open spec fn no_unit_tv(store: Seq<Vec<NoGood>>, tv: Seq<Term>) -> bool {
    forall|g: NoGood, b: int, j: int| is_tv(&g, tv) && 0 <= b < store.len() && b <= g.act().len() && 0 <= j < store[b]@.len() && #[trigger] unit_under(&store[b]@[j], &g) && bucket_consistent(store[b]@, &g)
        ==> unit_var(&store[b]@[j], &g) >= tv.len()
}
pub proof fn lemma_no_unit(store: Seq<Vec<NoGood>>, tv: Seq<Term>, g0: &NoGood, n: &NoGood)
    requires is_tv(g0, tv), prop_complete(store, g0, n, store.len() as int),
        forall|i: int| 0 <= i < tv.len() && n.act().contains(i as u32) ==> !und(#[trigger] tv[i]),
    ensures no_unit_tv(store, tv)
{
    assert forall|g: NoGood, b: int, j: int| is_tv(&g, tv) && 0 <= b < store.len() && b <= g.act().len() && 0 <= j < store[b]@.len() && #[trigger] unit_under(&store[b]@[j], &g) && bucket_consistent(store[b]@, &g)
        implies unit_var(&store[b]@[j], &g) >= tv.len() by {
        assert(g.act() =~= g0.act()); assert(g.val() =~= g0.val());
        let x = &store[b]@[j];
        assert(unit_under(x, g0));
        let bk = store[b]@;
        assert forall|i: int, k: int| 0 <= i < bk.len() && 0 <= k < bk.len() && #[trigger] unit_under(&bk[i], g0) && #[trigger] unit_under(&bk[k], g0) && unit_var(&bk[i], g0) == unit_var(&bk[k], g0)
            implies unit_pair(&bk[i], g0).1 == unit_pair(&bk[k], g0).1 by {
            assert(unit_under(&bk[i], &g) && unit_under(&bk[k], &g));
            assert(unit_var(&bk[i], &g) == unit_var(&bk[i], g0) && unit_var(&bk[k], &g) == unit_var(&bk[k], g0));
        }
        assert(bucket_consistent(store[b]@, g0));
        assert(unit_var(x, &g) == unit_var(x, g0));
        let uv = unit_var(x, g0);
        lemma_unit_var_in(x, g0);
        if uv < tv.len() { assert(n.act().contains(uv)); assert(!und(tv[uv as int])); assert(g0.act().contains(uv)); }
    }
}
