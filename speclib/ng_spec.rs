// C18: nogoods as partial assignments over u32 positions; a total assignment is a spec function u32 -> bool
use vstd::set_lib::*;

pub open spec fn und(t: Term) -> bool { t.0 > 1 }
pub proof fn lemma_subset_len_eq(a: Set<u32>, b: Set<u32>)
    requires a.subset_of(b), a.len() == b.len(),
    ensures a =~= b
{
    if !(a =~= b) {
        let x = choose|x: u32| b.contains(x) && !a.contains(x);
        assert(a.subset_of(b.remove(x)));
        lemma_len_subset(a, b.remove(x));
    }
}
pub proof fn lemma_singleton(a: Set<u32>, m: u32)
    requires a.len() == 1, a.contains(m),
    ensures forall|x: u32| a.contains(x) ==> x == m
{
    assert forall|x: u32| a.contains(x) implies x == m by {
        if x != m {
            assert(a.remove(m).contains(x));
            assert(a.remove(m).len() == 0);
            assert(a.remove(m) =~= Set::<u32>::empty());
        }
    }
}
pub proof fn lemma_sxor_empty(a: Set<u32>, b: Set<u32>)
    ensures (sxor(a, b) =~= Set::<u32>::empty()) == (a =~= b)
{
    if sxor(a, b) =~= Set::<u32>::empty() {
        assert forall|x: u32| a.contains(x) == b.contains(x) by { assert(!sxor(a, b).contains(x)); }
    }
}
impl NoGood {
    pub open spec fn act(&self) -> Set<u32> { rb_view(&self.active) }
    pub open spec fn val(&self) -> Set<u32> { rb_view(&self.value) }
    // self (as a partial assignment) is contained in other
    pub open spec fn matches(&self, other: &NoGood) -> bool {
        self.act().subset_of(other.act()) && forall|x: u32| self.act().contains(x) ==> (self.val().contains(x) == other.val().contains(x))
    }
    // ASSUMED: derive(Default) / derive(Clone) of NoGood act field-wise on the two bitmaps
    #[verifier::external_body]
    pub fn default() -> (r: NoGood) ensures r.act() =~= Set::<u32>::empty(), r.val() =~= Set::<u32>::empty() { unimplemented!() }
    #[verifier::external_body]
    pub fn clone(&self) -> (r: NoGood) ensures r.act() == self.act(), r.val() == self.val() { unimplemented!() }
}
// the trait impl exists only so that `Vec<NoGood>::contains` type-checks inside the outlined helper below; the real text of
// `impl PartialEq for NoGood` is verified as the inherent function NoGood::eq__ng against same_ng
impl PartialEq for NoGood { #[verifier::external_body] fn eq(&self, other: &Self) -> bool { unimplemented!() } }
// ASSUMED: slice::contains is `any(|e| e == x)` with the PartialEq impl above
#[verifier::external_body]
fn __o_vec_contains(v: &Vec<NoGood>, x: &NoGood) -> (r: bool) ensures r == exists|j: int| 0 <= j < v@.len() && same_ng(#[trigger] &v@[j], x) { v.contains(x) }
pub open spec fn wf_ng(n: &NoGood) -> bool { n.val().subset_of(n.act()) }
pub open spec fn same_ng(a: &NoGood, b: &NoGood) -> bool { a.act() =~= b.act() && a.val() =~= b.val() }
pub type TA = spec_fn(u32) -> bool;
// the total assignment i extends (matches) the nogood
pub open spec fn ext_of(i: TA, ng: &NoGood) -> bool { forall|x: u32| ng.act().contains(x) ==> i(x) == #[trigger] ng.val().contains(x) }
pub open spec fn avoids_all(i: TA, store: Seq<Vec<NoGood>>) -> bool {
    forall|b: int, j: int| 0 <= b < store.len() && 0 <= j < store[b]@.len() ==> !ext_of(i, #[trigger] &store[b]@[j])
}
// "excluded by the store" is !avoids_all(i, store)
pub open spec fn forced(store: Seq<Vec<NoGood>>, base: &NoGood, x: u32, v: bool) -> bool {
    forall|i: TA| ext_of(i, base) && #[trigger] avoids_all(i, store) ==> i(x) == v
}
// r extends base only by forced literals ("conclusions contain only assignments forced by the added nogoods")
pub open spec fn sound_ext(store: Seq<Vec<NoGood>>, base: &NoGood, r: &NoGood) -> bool {
    &&& base.matches(r)
    &&& forall|x: u32| r.act().contains(x) && !base.act().contains(x) ==> #[trigger] forced(store, base, x, r.val().contains(x))
}
// "no total extension of the interpretation avoids all added nogoods"
pub open spec fn no_extension(store: Seq<Vec<NoGood>>, base: &NoGood) -> bool {
    forall|i: TA| ext_of(i, base) ==> !#[trigger] avoids_all(i, store)
}
// bucket b holds only nogoods of size b + 1
pub open spec fn store_wf(st: Seq<Vec<NoGood>>) -> bool {
    forall|b: int, j: int| 0 <= b < st.len() && 0 <= j < st[b]@.len() ==> (#[trigger] st[b]@[j]).act().len() == b + 1 && wf_ng(&st[b]@[j])
}
pub open spec fn none_matches(st: Seq<Vec<NoGood>>, n: &NoGood) -> bool {
    forall|b: int, j: int| 0 <= b < st.len() && 0 <= j < st[b]@.len() ==> !(#[trigger] st[b]@[j]).matches(n)
}
// a literal concluded from a stored nogood is forced
pub proof fn lemma_conclude_forced(store: Seq<Vec<NoGood>>, b: int, j: int, base: &NoGood, p: usize, v: bool)
    requires
        0 <= b < store.len(), 0 <= j < store[b]@.len(), p <= u32::MAX,
        ({ let n = &store[b]@[j];
           n.act().contains(p as u32) && !base.act().contains(p as u32) && v == !n.val().contains(p as u32)
           && forall|x: u32| n.act().contains(x) && x != p as u32 ==> base.act().contains(x) && (n.val().contains(x) == base.val().contains(x)) }),
    ensures forced(store, base, p as u32, v)
{
    let n = &store[b]@[j];
    assert forall|i: TA| ext_of(i, base) && #[trigger] avoids_all(i, store) implies i(p as u32) == v by {
        assert(!ext_of(i, &store[b]@[j]));
        if i(p as u32) != v {
            assert forall|x: u32| n.act().contains(x) implies i(x) == #[trigger] n.val().contains(x) by {
                if x != p as u32 { assert(i(x) == base.val().contains(x)); }
            }
        }
    }
}
// the conclusion of one bucket merged into the accumulated result keeps the result a sound extension
pub proof fn lemma_merge_sound(st: Seq<Vec<NoGood>>, base: &NoGood, before: &NoGood, ng: &NoGood, after: &NoGood)
    requires
        sound_ext(st, base, before), wf_ng(base), wf_ng(before), wf_ng(ng),
        forall|x: u32| ng.act().contains(x) ==> forced(st, base, x, ng.val().contains(x)) && !base.act().contains(x),
        after.act() == before.act().union(ng.act()), after.val() == before.val().union(ng.val()),
    ensures sound_ext(st, base, after), wf_ng(after),
{
    assert(base.matches(after)) by {
        assert forall|x: u32| base.act().contains(x) implies (base.val().contains(x) == after.val().contains(x)) by { assert(!ng.act().contains(x)); }
    }
    assert forall|x: u32| after.act().contains(x) && !base.act().contains(x) implies #[trigger] forced(st, base, x, after.val().contains(x)) by {
        if ng.val().contains(x) {
            assert(ng.act().contains(x));
            assert(forced(st, base, x, ng.val().contains(x)));
        } else if before.act().contains(x) {
            assert(after.val().contains(x) == before.val().contains(x));
            assert(forced(st, base, x, before.val().contains(x)));
        } else {
            assert(ng.act().contains(x));
            assert(!before.val().contains(x));
            assert(forced(st, base, x, ng.val().contains(x)));
        }
    }
}
// a stored nogood contained in the (soundly extended) result or in the base leaves no extension
pub proof fn lemma_conflict(st: Seq<Vec<NoGood>>, base: &NoGood, result: &NoGood, b: int, j: int)
    requires sound_ext(st, base, result), 0 <= b < st.len(), 0 <= j < st[b]@.len(), st[b]@[j].matches(result) || st[b]@[j].matches(base),
    ensures no_extension(st, base)
{
    assert forall|i: TA| ext_of(i, base) implies !#[trigger] avoids_all(i, st) by {
        if avoids_all(i, st) {
            assert(!ext_of(i, &st[b]@[j]));
            assert forall|x: u32| result.act().contains(x) implies i(x) == #[trigger] result.val().contains(x) by {
                if base.act().contains(x) { } else { assert(forced(st, base, x, result.val().contains(x))); }
            }
            assert forall|x: u32| st[b]@[j].act().contains(x) implies i(x) == #[trigger] st[b]@[j].val().contains(x) by { }
        }
    }
}
// no stored nogood of size <= |base| + 1 matches base  ==>  none matches at all (larger ones cannot be contained)
pub proof fn lemma_none_matches(st: Seq<Vec<NoGood>>, base: &NoGood)
    requires store_wf(st), forall|b: int, j: int| 0 <= b < st.len() && 0 <= j < st[b]@.len() && b <= base.act().len() ==> !(#[trigger] st[b]@[j]).matches(base),
    ensures none_matches(st, base)
{
    assert forall|b: int, j: int| 0 <= b < st.len() && 0 <= j < st[b]@.len() implies !(#[trigger] st[b]@[j]).matches(base) by {
        if b > base.act().len() && st[b]@[j].matches(base) { lemma_len_subset(st[b]@[j].act(), base.act()); }
    }
}
// ---- what a vector of terms denotes as a nogood / interpretation
pub open spec fn is_tv(n: &NoGood, tv: Seq<Term>) -> bool {
    &&& forall|x: u32| n.act().contains(x) == (x < tv.len() && tv[x as int].0 <= 1)
    &&& forall|x: u32| n.val().contains(x) == (x < tv.len() && tv[x as int].0 == 1)
}
// update_term_vec as a function
pub open spec fn upd_tv(n: &NoGood, tv: Seq<Term>) -> Seq<Term> {
    Seq::new(tv.len(), |i: int| if n.act().contains(i as u32) { if n.val().contains(i as u32) { Term(1) } else { Term(0) } } else { tv[i] })
}
// excluded set after an addition (C18: "nothing forgotten, nothing invented")
pub open spec fn excl_add(old_st: Seq<Vec<NoGood>>, new_st: Seq<Vec<NoGood>>, ng: &NoGood) -> bool {
    forall|i: TA| #![trigger avoids_all(i, new_st)] avoids_all(i, new_st) == (avoids_all(i, old_st) && !ext_of(i, ng))
}
pub open spec fn excl_same(old_st: Seq<Vec<NoGood>>, new_st: Seq<Vec<NoGood>>) -> bool {
    forall|i: TA| #![trigger avoids_all(i, new_st)] avoids_all(i, new_st) == avoids_all(i, old_st)
}
// a nogood a contained in b excludes at least what b excludes
pub proof fn lemma_matches_ext(a: &NoGood, b: &NoGood, i: TA)
    requires a.matches(b), ext_of(i, b), ensures ext_of(i, a)
{
    assert forall|x: u32| a.act().contains(x) implies i(x) == #[trigger] a.val().contains(x) by { assert(b.act().contains(x)); assert(i(x) == b.val().contains(x)); }
}
