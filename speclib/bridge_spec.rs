// C09 bridge: biodivine's textual dump of a diagram.  ASSUMED format (cross-checked at run time by the replay harness):
// rows separated by '|', row 0 / 1 are the terminals, row k >= 2 is "var,low,high" with low, high < k and variables
// increasing towards the leaves; the last row is the root; the dump denotes bio_den.
use biodivine_lib_bdd::bio_den;
pub uninterp spec fn bio_rows(b: &biodivine_lib_bdd::Bdd) -> Seq<(usize, usize, usize)>;
pub uninterp spec fn row_of(s: &String) -> (usize, usize, usize);
pub uninterp spec fn num(s: &str) -> usize;
pub open spec fn den_rows(rows: Seq<(usize, usize, usize)>, k: int) -> BF
    decreases k
{
    if k <= 0 { bf_const(false) } else if k == 1 { bf_const(true) }
    else if k < rows.len() && rows[k].1 < k && rows[k].2 < k { bf_node(rows[k].0, den_rows(rows, rows[k].2 as int), den_rows(rows, rows[k].1 as int)) }
    else { bf_const(false) }
}
pub open spec fn rows_ok(rows: Seq<(usize, usize, usize)>) -> bool {
    &&& rows.len() >= 3
    &&& rows[0].0 < usize::MAX - 1 && rows[1].0 == rows[0].0
    &&& forall|k: int| 2 <= k < rows.len() ==> (#[trigger] rows[k]).1 < k && rows[k].2 < k && rows[k].0 < rows[rows[k].1 as int].0 && rows[k].0 < rows[rows[k].2 as int].0
}
// rule O: the three string expressions of `from_biodivine_vector`, outlined (bodies are the original expressions)
#[verifier::external_body]
fn __o_bio_row_strings(b: &biodivine_lib_bdd::Bdd) -> (r: Vec<String>)
    requires bio_den(b) != bf_const(true), bio_den(b) != bf_const(false),
    ensures r@.len() == bio_rows(b).len(), rows_ok(bio_rows(b)), bio_den(b) == den_rows(bio_rows(b), bio_rows(b).len() - 1),
        forall|k: int| 0 <= k < r@.len() ==> row_of(#[trigger] &r@[k]) == bio_rows(b)[k],
{ b.to_string().split('|').filter(|tuple| !tuple.is_empty()).map(|s| s.to_string()).collect() }
#[verifier::external_body]
fn __o_split_commas<'a>(t: &'a String) -> (r: Vec<&'a str>)
    ensures r@.len() == 3, num(r@[0]) == row_of(t).0, num(r@[1]) == row_of(t).1, num(r@[2]) == row_of(t).2,
{ t.split(',').collect::<Vec<&str>>() }
#[verifier::external_body]
fn __o_parse_usize(s: &str) -> (r: usize) ensures r == num(s) { s.parse::<usize>().expect("number") }
pub proof fn lemma_den_rows_prefix(rows: Seq<(usize, usize, usize)>, k: int)
    requires rows_ok(rows), 2 <= k < rows.len(),
    ensures den_rows(rows, k) == bf_node(rows[k].0, den_rows(rows, rows[k].2 as int), den_rows(rows, rows[k].1 as int))
{ }
impl VarContainer {
    // ASSUMED: derive(Clone) of VarContainer (two Arc clones) yields an equal dictionary
    #[verifier::external_body] pub fn clone(&self) -> (r: VarContainer) ensures r == *self { unimplemented!() }
}
impl biodivine_lib_bdd::Bdd { #[verifier::external_body] pub fn to_string(&self) -> String { unimplemented!() } }
// ---- hybrid back-end: composition of the biodivine grounded contract (unit bio) with the bridge contract (C09).
// hybrid_step() == adf::Adf::from_biodivine_vector(var_container, &self.grounded_internal(self.ac())) (shape obligation in
// unit bio): bio_r is the biodivine grounded vector of an ADF with conditions fs, handles are the imported conditions
pub proof fn lemma_hybrid_step(nodes: Seq<BddNode>, fs: Seq<BF>, handles: Seq<Term>, r: Seq<Term>, rank: Seq<nat>)
    requires
        r.len() == fs.len(), handles.len() == fs.len(), r.len() < usize::MAX,
        is_lfp(fs, tvs(r)), derivable(fs, r, rank),
        // bio grounded_internal post-1 composed with the bridge post: every imported handle denotes the condition restricted by r
        forall|i: int| 0 <= i < fs.len() ==> den(nodes, (#[trigger] handles[i]).0 as int) == cof(fs[i], r, r.len() as int),
    ensures
        // the native procedures run on the imported ADF see the same least fixpoint, the same fixpoints (complete models)
        // and the same stable models
        is_lfp(dens(nodes, handles), tvs(r)),
        forall|w: Seq<Option<bool>>| #[trigger] is_fix(dens(nodes, handles), w) == is_fix(fs, w),
        forall|v: Seq<Term>| v.len() == fs.len() && (forall|j: int| 0 <= j < v.len() ==> decided(#[trigger] v[j])) ==> #[trigger] is_stable(dens(nodes, handles), v) == is_stable(fs, v),
{
    assert(dens(nodes, handles) =~= pre_grounded(fs, tvs(r))) by {
        assert forall|i: int| 0 <= i < fs.len() implies dens(nodes, handles)[i] == pre_grounded(fs, tvs(r))[i] by { lemma_cof_cofv(fs[i], r); }
    }
    lemma_hybrid_lfp(fs, tvs(r));
    assert forall|w: Seq<Option<bool>>| #[trigger] is_fix(dens(nodes, handles), w) == is_fix(fs, w) by { lemma_hybrid_fix(fs, tvs(r), w); }
    assert forall|v: Seq<Term>| v.len() == fs.len() && (forall|j: int| 0 <= j < v.len() ==> decided(#[trigger] v[j])) implies #[trigger] is_stable(dens(nodes, handles), v) == is_stable(fs, v) by {
        lemma_hybrid_stable(fs, r, rank, v);
    }
}
