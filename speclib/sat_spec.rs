// C13 #sat lemmas (outside mod sp: the Boolean-function algebra is opaque here, only its public laws are used)
pub proof fn lemma_pow2_zero() ensures pow2(0) == 1 { reveal(pow2); vstd::arithmetic::power::lemma_pow0(2); }
pub proof fn lemma_cnt_const(b: bool, vs: Seq<usize>)
    ensures cnt_sat(bf_const(b), vs) == (if b { pow2(vs.len()) } else { 0 })
    decreases vs.len()
{
    if vs.len() > 0 {
        law_restrict_const(b, vs.last(), false); law_restrict_const(b, vs.last(), true);
        lemma_cnt_const(b, vs.drop_last());
        vstd::arithmetic::power2::lemma_pow2_unfold(vs.len());
    } else { lemma_pow2_zero(); law_const_eval(b, |x: usize| false); }
}
pub proof fn lemma_cnt_node(v: usize, h: BF, l: BF, vs: Seq<usize>)
    requires vs.contains(v), distinct(vs), bf_indep(h, v), bf_indep(l, v),
    ensures 2 * cnt_sat(bf_node(v, h, l), vs) == cnt_sat(h, vs) + cnt_sat(l, vs)
    decreases vs.len()
{
    let w = vs.last();
    let rest = vs.drop_last();
    if w == v {
        law_restrict_node_eq(h, l, v, false); law_restrict_node_eq(h, l, v, true);
        law_restrict_indep(h, v, true); law_restrict_indep(l, v, false);
        law_restrict_indep(h, v, false); law_restrict_indep(l, v, true);
        assert(cnt_sat(bf_node(v, h, l), vs) == cnt_sat(l, rest) + cnt_sat(h, rest));
        assert(cnt_sat(h, vs) == cnt_sat(h, rest) + cnt_sat(h, rest));
        assert(cnt_sat(l, vs) == cnt_sat(l, rest) + cnt_sat(l, rest));
    } else {
        let i = choose|i: int| 0 <= i < vs.len() && vs[i] == v;
        assert(rest[i] == v);
        assert(rest.contains(v));
        assert(distinct(rest)) by { assert forall|i: int, j: int| 0 <= i < j < rest.len() implies rest[i] != rest[j] by { assert(rest[i] == vs[i]); assert(rest[j] == vs[j]); } }
        law_restrict_node_ne(v, h, l, w, false); law_restrict_node_ne(v, h, l, w, true);
        law_indep_restrict_other(h, v, w, false); law_indep_restrict_other(h, v, w, true);
        law_indep_restrict_other(l, v, w, false); law_indep_restrict_other(l, v, w, true);
        lemma_cnt_node(v, bf_restrict(h, w, false), bf_restrict(l, w, false), rest);
        lemma_cnt_node(v, bf_restrict(h, w, true), bf_restrict(l, w, true), rest);
        assert(cnt_sat(bf_node(v, h, l), vs) == cnt_sat(bf_node(v, bf_restrict(h, w, false), bf_restrict(l, w, false)), rest) + cnt_sat(bf_node(v, bf_restrict(h, w, true), bf_restrict(l, w, true)), rest));
    }
}
pub proof fn lemma_ratio_arith(c: int, cl: int, ch: int, ml: int, mh: int, n: int, pdl: int, pdh: int, ple: int, phe: int, pd1: int)
    requires 2 * c == ch + cl, cl * pdl == ml * n, ch * pdh == mh * n, pdl * ple == pd1, pdh * phe == pd1,
    ensures c * (2 * pd1) == (ml * ple + mh * phe) * n
{
    assert(c * (2 * pd1) == (2 * c) * pd1) by (nonlinear_arith);
    assert((ch + cl) * pd1 == ch * pd1 + cl * pd1) by (nonlinear_arith);
    assert(ch * pd1 == (ch * pdh) * phe) by (nonlinear_arith) requires pdh * phe == pd1;
    assert(cl * pd1 == (cl * pdl) * ple) by (nonlinear_arith) requires pdl * ple == pd1;
    assert((mh * n) * phe == (mh * phe) * n) by (nonlinear_arith);
    assert((ml * n) * ple == (ml * ple) * n) by (nonlinear_arith);
    assert((ml * ple + mh * phe) * n == (ml * ple) * n + (mh * phe) * n) by (nonlinear_arith);
}
// every variable occurring below t is listed
pub open spec fn vars_listed(nodes: Seq<BddNode>, t: int, vs: Seq<usize>) -> bool { forall|v: Var| supp(nodes, t).contains(v) ==> vs.contains(#[trigger] v.0) }
// THE RATIO: over any duplicate-free list vs of variables that contains the diagram's variables, the number of satisfying
// assignments, scaled by 2^depth, is the model counter scaled by 2^|vs|; hence models : counter-models == satisfying : falsifying
pub proof fn lemma_sat_models(nodes: Seq<BddNode>, t: int, vs: Seq<usize>)
    requires nodes_wf(nodes), 0 <= t < nodes.len(), distinct(vs), vars_listed(nodes, t, vs), depth_spec(nodes, t) < 0x1_0000_0000,
    ensures
        (cnt_sat(den(nodes, t), vs) as int) * (pow2(depth_spec(nodes, t) as nat) as int) == models_spec(nodes, t).1 * (pow2(vs.len()) as int),
        (cnt_sat(bf_not_(den(nodes, t)), vs) as int) * (pow2(depth_spec(nodes, t) as nat) as int) == models_spec(nodes, t).0 * (pow2(vs.len()) as int),
    decreases t
{
    lemma_pow2_zero();
    if t == 0 { lemma_cnt_const(false, vs); law_not_const(false); lemma_cnt_const(true, vs); assert(depth_spec(nodes, t) == 0); assert(models_spec(nodes, t) == (1int, 0int));
        assert(cnt_sat(den(nodes, t), vs) == 0); assert(cnt_sat(bf_not_(den(nodes, t)), vs) == pow2(vs.len()));
        assert((cnt_sat(den(nodes, t), vs) as int) * (pow2(depth_spec(nodes, t) as nat) as int) == models_spec(nodes, t).1 * (pow2(vs.len()) as int)) by (nonlinear_arith) requires cnt_sat(den(nodes, t), vs) == 0, models_spec(nodes, t).1 == 0;
        assert((cnt_sat(bf_not_(den(nodes, t)), vs) as int) * (pow2(depth_spec(nodes, t) as nat) as int) == models_spec(nodes, t).0 * (pow2(vs.len()) as int)) by (nonlinear_arith) requires cnt_sat(bf_not_(den(nodes, t)), vs) == pow2(vs.len()), models_spec(nodes, t).0 == 1, pow2(depth_spec(nodes, t) as nat) == 1; }
    else if t == 1 { lemma_cnt_const(true, vs); law_not_const(true); lemma_cnt_const(false, vs); assert(depth_spec(nodes, t) == 0); assert(models_spec(nodes, t) == (0int, 1int));
        assert(cnt_sat(den(nodes, t), vs) == pow2(vs.len())); assert(cnt_sat(bf_not_(den(nodes, t)), vs) == 0);
        assert((cnt_sat(den(nodes, t), vs) as int) * (pow2(depth_spec(nodes, t) as nat) as int) == models_spec(nodes, t).1 * (pow2(vs.len()) as int)) by (nonlinear_arith) requires cnt_sat(den(nodes, t), vs) == pow2(vs.len()), models_spec(nodes, t).1 == 1, pow2(depth_spec(nodes, t) as nat) == 1;
        assert((cnt_sat(bf_not_(den(nodes, t)), vs) as int) * (pow2(depth_spec(nodes, t) as nat) as int) == models_spec(nodes, t).0 * (pow2(vs.len()) as int)) by (nonlinear_arith) requires cnt_sat(bf_not_(den(nodes, t)), vs) == 0, models_spec(nodes, t).0 == 0; }
    else {
        assert(inner_ok(nodes, t));
        let lo = nodes[t].lo.0 as int; let hi = nodes[t].hi.0 as int; let v = nodes[t].var.0;
        lemma_depth_bound(nodes, lo); lemma_depth_bound(nodes, hi);
        let dl = depth_spec(nodes, lo); let dh = depth_spec(nodes, hi);
        assert(supp(nodes, t).contains(nodes[t].var));
        assert(vs.contains(v));
        assert(vars_listed(nodes, lo, vs)) by { assert forall|x: Var| supp(nodes, lo).contains(x) implies vs.contains(#[trigger] x.0) by { assert(supp(nodes, t).contains(x)); } }
        assert(vars_listed(nodes, hi, vs)) by { assert forall|x: Var| supp(nodes, hi).contains(x) implies vs.contains(#[trigger] x.0) by { assert(supp(nodes, t).contains(x)); } }
        lemma_sat_models(nodes, lo, vs); lemma_sat_models(nodes, hi, vs);
        lemma_den_indep_small(nodes, lo, v); lemma_den_indep_small(nodes, hi, v);
        let fh = den(nodes, hi); let fl = den(nodes, lo);
        lemma_cnt_node(v, fh, fl, vs);
        law_not_node(v, fh, fl); law_indep_not(fh, v); law_indep_not(fl, v);
        lemma_cnt_node(v, bf_not_(fh), bf_not_(fl), vs);
        let le: nat = if dl > dh { 0nat } else { (dh - dl) as nat };
        let he: nat = if dl > dh { (dl - dh) as nat } else { 0nat };
        assert(exp32(dh - dl) == (dh - dl) as nat || dl > dh);
        assert(exp32(dl - dh) == (dl - dh) as nat || dl <= dh);
        let d1: nat = (if dl >= dh { dl } else { dh }) as nat;
        vstd::arithmetic::power2::lemma_pow2_adds(dl as nat, le);
        vstd::arithmetic::power2::lemma_pow2_adds(dh as nat, he);
        vstd::arithmetic::power2::lemma_pow2_unfold(d1 + 1);
        let n = pow2(vs.len()) as int;
        assert(guard(nodes, t));
        assert(depth_spec(nodes, t) == d1 + 1);
        assert(den(nodes, t) == bf_node(v, fh, fl));
        assert(models_spec(nodes, t).1 == models_spec(nodes, lo).1 * pow2(le) + models_spec(nodes, hi).1 * pow2(he));
        assert(models_spec(nodes, t).0 == models_spec(nodes, lo).0 * pow2(le) + models_spec(nodes, hi).0 * pow2(he));
        assert(pow2(dl as nat) * pow2(le) == pow2(d1));
        assert(pow2(dh as nat) * pow2(he) == pow2(d1));
        assert(pow2(d1 + 1) == 2 * pow2(d1));
        lemma_ratio_arith(cnt_sat(den(nodes, t), vs) as int, cnt_sat(fl, vs) as int, cnt_sat(fh, vs) as int, models_spec(nodes, lo).1, models_spec(nodes, hi).1, n,
            pow2(dl as nat) as int, pow2(dh as nat) as int, pow2(le) as int, pow2(he) as int, pow2(d1) as int);
        assert((cnt_sat(den(nodes, t), vs) as int) * (2 * (pow2(d1) as int)) == (models_spec(nodes, lo).1 * (pow2(le) as int) + models_spec(nodes, hi).1 * (pow2(he) as int)) * n);
        assert((cnt_sat(den(nodes, t), vs) as int) * (pow2(depth_spec(nodes, t) as nat) as int) == models_spec(nodes, t).1 * (pow2(vs.len()) as int));
        lemma_ratio_arith(cnt_sat(bf_not_(den(nodes, t)), vs) as int, cnt_sat(bf_not_(fl), vs) as int, cnt_sat(bf_not_(fh), vs) as int, models_spec(nodes, lo).0, models_spec(nodes, hi).0, n,
            pow2(dl as nat) as int, pow2(dh as nat) as int, pow2(le) as int, pow2(he) as int, pow2(d1) as int);
        assert((cnt_sat(bf_not_(den(nodes, t)), vs) as int) * (pow2(depth_spec(nodes, t) as nat) as int) == models_spec(nodes, t).0 * (pow2(vs.len()) as int));
    }
}
