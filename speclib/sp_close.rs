} // mod sp
use sp::*;

pub mod axioms {
    use super::*;
    #[verifier::external_body]
    pub broadcast proof fn axiom_key_bddnode() ensures #[trigger] obeys_key_model::<BddNode>() {}
    #[verifier::external_body]
    pub broadcast proof fn axiom_key_ite() ensures #[trigger] obeys_key_model::<(Term, Term, Term)>() {}
    #[verifier::external_body]
    pub broadcast proof fn axiom_key_var() ensures #[trigger] obeys_key_model::<Var>() {}
    #[verifier::external_body]
    pub broadcast proof fn axiom_key_term() ensures #[trigger] obeys_key_model::<Term>() {}
    #[verifier::external_body]
    pub broadcast proof fn axiom_key_restrict() ensures #[trigger] obeys_key_model::<(Term, Var, bool)>() {}
}
broadcast use {sp::lemma_ext_den, group_hash_axioms, axioms::axiom_key_bddnode, axioms::axiom_key_ite, axioms::axiom_key_restrict, axioms::axiom_key_var, axioms::axiom_key_term, sp::lemma_ext_supp, sp::lemma_ext_paths, sp::lemma_ext_depth};

// a memo entry has a *shape* part (C06: handles in range, ordering facts used for termination and for node's precondition)
// and a *denotation* part (C07/C11: the cached answer is the right function)
pub open spec fn ite_entry_shape(nodes: Seq<BddNode>, k: (Term, Term, Term), v: Term) -> bool {
    &&& k.0.0 < nodes.len() && k.1.0 < nodes.len() && k.2.0 < nodes.len() && v.0 < nodes.len()
    &&& topvar(nodes, v.0 as int) >= min3(topvar(nodes, k.0.0 as int), topvar(nodes, k.1.0 as int), topvar(nodes, k.2.0 as int))
}
pub open spec fn ite_entry_den(nodes: Seq<BddNode>, k: (Term, Term, Term), v: Term) -> bool {
    den(nodes, v.0 as int) == bf_ite(den(nodes, k.0.0 as int), den(nodes, k.1.0 as int), den(nodes, k.2.0 as int))
}
pub open spec fn ite_entry_ok(nodes: Seq<BddNode>, k: (Term, Term, Term), v: Term) -> bool { ite_entry_shape(nodes, k, v) && ite_entry_den(nodes, k, v) }
pub open spec fn restrict_entry_shape(nodes: Seq<BddNode>, k: (Term, Var, bool), v: Term) -> bool {
    &&& k.0.0 < nodes.len() && v.0 < nodes.len()
    &&& topvar(nodes, v.0 as int) >= topvar(nodes, k.0.0 as int)
    &&& topvar(nodes, v.0 as int) != k.1.0
}
pub open spec fn restrict_entry_den(nodes: Seq<BddNode>, k: (Term, Var, bool), v: Term) -> bool {
    den(nodes, v.0 as int) == bf_restrict(den(nodes, k.0.0 as int), k.1.0, k.2)
}
pub open spec fn restrict_entry_ok(nodes: Seq<BddNode>, k: (Term, Var, bool), v: Term) -> bool { restrict_entry_shape(nodes, k, v) && restrict_entry_den(nodes, k, v) }
pub proof fn lemma_ext_entries(o: Seq<BddNode>, n: Seq<BddNode>)
    requires ext(o, n),
    ensures
        forall|k: (Term, Term, Term), v: Term| #[trigger] ite_entry_shape(o, k, v) ==> ite_entry_shape(n, k, v),
        forall|k: (Term, Var, bool), v: Term| #[trigger] restrict_entry_shape(o, k, v) ==> restrict_entry_shape(n, k, v),
        forall|k: (Term, Term, Term), v: Term| ite_entry_shape(o, k, v) && #[trigger] ite_entry_den(o, k, v) ==> ite_entry_den(n, k, v),
        forall|k: (Term, Var, bool), v: Term| restrict_entry_shape(o, k, v) && #[trigger] restrict_entry_den(o, k, v) ==> restrict_entry_den(n, k, v),
{
}

#[verifier::external_body]
fn __o_union_copied_collect(a: &HashSet<Var>, b: &HashSet<Var>) -> (r: HashSet<Var>) ensures r@ == a@.union(b@) { a.union(b).copied().collect() }
#[verifier::external_body]
fn __o_hashset_clone(a: &HashSet<Var>) -> (r: HashSet<Var>) ensures r@ == a@ { a.clone() }
#[verifier::external_body]
fn __o_max_usize(a: usize, b: usize) -> (r: usize) ensures r == (if a >= b { a } else { b }) { std::cmp::max(a, b) }
#[verifier::external_body]
fn __o_pow2(e: u32) -> (r: usize) requires e < 64 ensures r == vstd::arithmetic::power2::pow2(e as nat) { 2usize.pow(e) }


// Each component of the representation invariant is a predicate over the *views of the fields it reads*, so that an
// operation that leaves those fields alone preserves it by congruence (no quantifier reasoning, stable proofs).
// ---- C06 / C11: node table reduced + ordered, unique table exact (=> no duplicates), memo tables hold only correct entries
pub open spec fn core_ok(nodes: Seq<BddNode>, cache: Map<BddNode, Term>, ite: Map<(Term, Term, Term), Term>, rc: Map<(Term, Var, bool), Term>) -> bool {
    &&& nodes_wf(nodes)
    &&& forall|n: BddNode| #[trigger] cache.contains_key(n) ==> 2 <= cache[n].0 < nodes.len() && nodes[cache[n].0 as int] == n
    &&& forall|i: int| 2 <= i < nodes.len() ==> cache.contains_key(#[trigger] nodes[i]) && cache[nodes[i]].0 == i
    &&& forall|k: (Term, Term, Term)| #[trigger] ite.contains_key(k) ==> ite_entry_shape(nodes, k, ite[k])
    &&& forall|k: (Term, Var, bool)| #[trigger] rc.contains_key(k) ==> restrict_entry_shape(nodes, k, rc[k])
}
// ---- C07 / C11: every memoised answer denotes the right function
pub open spec fn memo_ok(nodes: Seq<BddNode>, ite: Map<(Term, Term, Term), Term>, rc: Map<(Term, Var, bool), Term>) -> bool {
    &&& forall|k: (Term, Term, Term)| #[trigger] ite.contains_key(k) ==> ite_entry_den(nodes, k, ite[k])
    &&& forall|k: (Term, Var, bool)| #[trigger] rc.contains_key(k) ==> restrict_entry_den(nodes, k, rc[k])
}
// ---- C13 (and C07 through the early exit of restrict): the stored dependency sets are the supports
pub open spec fn deps_ok(nodes: Seq<BddNode>, vd: Seq<HashSet<Var>>) -> bool {
    &&& vd.len() == nodes.len()
    &&& forall|i: int| 0 <= i < nodes.len() ==> (#[trigger] vd[i])@ == supp(nodes, i)
}
// ---- C13 / C11: the count table: every entry present is right; with ad-hoc counting every handle has an entry
pub open spec fn counts_present_ok(nodes: Seq<BddNode>, cc: Map<Term, CountNode>) -> bool {
    forall|t: Term| #[trigger] cc.contains_key(t) ==> t.0 < nodes.len() && cc_ok(nodes, t.0 as int, cc[t])
}
#[cfg(feature = "adhoccounting")]
pub open spec fn counts_ok(nodes: Seq<BddNode>, cc: Map<Term, CountNode>) -> bool {
    counts_present_ok(nodes, cc) && forall|t: Term| t.0 < nodes.len() ==> #[trigger] cc.contains_key(t)
}
#[cfg(not(feature = "adhoccounting"))]
pub open spec fn counts_ok(nodes: Seq<BddNode>, cc: Map<Term, CountNode>) -> bool { counts_present_ok(nodes, cc) }
// ---- frame lemmas for `Bdd::node` (the heavy quantifier reasoning lives here, once, outside the function bodies)
pub proof fn lemma_core_push(o: Seq<BddNode>, n: Seq<BddNode>, co: Map<BddNode, Term>, cn: Map<BddNode, Term>, ite: Map<(Term, Term, Term), Term>, rc: Map<(Term, Var, bool), Term>, node: BddNode, nt: Term)
    requires
        core_ok(o, co, ite, rc), n == o.push(node), !co.contains_key(node), cn == co.insert(node, nt), nt.0 == o.len(),
        node.var.0 < usize::MAX - 1, node.lo.0 < o.len(), node.hi.0 < o.len(), node.lo != node.hi,
        node.var.0 < topvar(o, node.lo.0 as int), node.var.0 < topvar(o, node.hi.0 as int),
    ensures core_ok(n, cn, ite, rc), ext(o, n),
{
    assert(ext(o, n));
    lemma_ext_entries(o, n);
    assert forall|i: int| 2 <= i < n.len() implies #[trigger] inner_ok(n, i) by { if i < o.len() { assert(inner_ok(o, i)); } }
    assert forall|i: int| 2 <= i < n.len() implies cn.contains_key(#[trigger] n[i]) && cn[n[i]].0 == i by {
        if i < o.len() { assert(co.contains_key(o[i])); assert(o[i] != node); }
    }
    assert forall|m: BddNode| #[trigger] cn.contains_key(m) implies 2 <= cn[m].0 < n.len() && n[cn[m].0 as int] == m by {
        if m != node { assert(co.contains_key(m)); }
    }
    assert forall|k: (Term, Term, Term)| #[trigger] ite.contains_key(k) implies ite_entry_shape(n, k, ite[k]) by { assert(ite_entry_shape(o, k, ite[k])); }
    assert forall|k: (Term, Var, bool)| #[trigger] rc.contains_key(k) implies restrict_entry_shape(n, k, rc[k]) by { assert(restrict_entry_shape(o, k, rc[k])); }
}
pub proof fn lemma_memo_ext(o: Seq<BddNode>, n: Seq<BddNode>, co: Map<BddNode, Term>, ite: Map<(Term, Term, Term), Term>, rc: Map<(Term, Var, bool), Term>)
    requires core_ok(o, co, ite, rc), memo_ok(o, ite, rc), ext(o, n),
    ensures memo_ok(n, ite, rc),
{
    lemma_ext_entries(o, n);
    assert forall|k: (Term, Term, Term)| #[trigger] ite.contains_key(k) implies ite_entry_den(n, k, ite[k]) by { assert(ite_entry_shape(o, k, ite[k])); assert(ite_entry_den(o, k, ite[k])); }
    assert forall|k: (Term, Var, bool)| #[trigger] rc.contains_key(k) implies restrict_entry_den(n, k, rc[k]) by { assert(restrict_entry_shape(o, k, rc[k])); assert(restrict_entry_den(o, k, rc[k])); }
}
pub proof fn lemma_deps_push(o: Seq<BddNode>, n: Seq<BddNode>, vo: Seq<HashSet<Var>>, vn: Seq<HashSet<Var>>, node: BddNode)
    requires
        deps_ok(o, vo), n == o.push(node), node.lo.0 < o.len(), node.hi.0 < o.len(), o.len() >= 2,
        vn.len() == vo.len() + 1, forall|i: int| 0 <= i < vo.len() ==> vn[i] == vo[i],
        vn[o.len() as int]@ =~= supp(o, node.lo.0 as int).union(supp(o, node.hi.0 as int)).insert(node.var),
    ensures deps_ok(n, vn),
{
    assert(ext(o, n));
    assert(guard(n, o.len() as int));
    assert forall|i: int| 0 <= i < n.len() implies (#[trigger] vn[i])@ == supp(n, i) by {
        if i < o.len() { lemma_ext_supp(o, n, i); assert(vo[i]@ == supp(o, i)); }
        else {
            lemma_ext_supp(o, n, node.lo.0 as int); lemma_ext_supp(o, n, node.hi.0 as int);
            assert(supp(n, i) == supp(n, node.lo.0 as int).union(supp(n, node.hi.0 as int)).insert(node.var));
            assert(vn[i]@ =~= supp(n, i));
        }
    }
}
// the entry computed for a new inner node from the entries of its children (paths and depth; `mok` = the model-count
// component is right, which the caller establishes per configuration)
pub proof fn lemma_cc_entry(o: Seq<BddNode>, n: Seq<BddNode>, node: BddNode, cl: CountNode, ch: CountNode, e: CountNode)
    requires
        n == o.push(node), node.lo.0 < o.len(), node.hi.0 < o.len(), o.len() >= 2,
        cc_paths_ok(o, node.lo.0 as int, cl), cc_paths_ok(o, node.hi.0 as int, ch),
        e.1.cmodels == cl.1.cmodels + ch.1.cmodels, e.1.models == cl.1.models + ch.1.models,
        e.2 == (if cl.2 >= ch.2 { cl.2 } else { ch.2 }) + 1,
    ensures cc_paths_ok(n, o.len() as int, e),
{
    assert(ext(o, n));
    assert(guard(n, o.len() as int));
    lemma_ext_paths(o, n, node.lo.0 as int); lemma_ext_paths(o, n, node.hi.0 as int);
    lemma_ext_depth(o, n, node.lo.0 as int); lemma_ext_depth(o, n, node.hi.0 as int);
}
// model-count component of the entry `node` computes with ad-hoc model counting (and of what the memoised counter stores)
#[cfg(any(not(feature = "adhoccounting"), feature = "adhoccountmodels"))]
pub proof fn lemma_cc_models_entry(o: Seq<BddNode>, n: Seq<BddNode>, node: BddNode, cl: CountNode, ch: CountNode, e: CountNode)
    requires
        n == o.push(node), node.lo.0 < o.len(), node.hi.0 < o.len(), o.len() >= 2,
        cc_ok(o, node.lo.0 as int, cl), cc_ok(o, node.hi.0 as int, ch),
        e.0.cmodels == cl.0.cmodels * (if cl.2 > ch.2 { 1int } else { pow2(exp32(ch.2 - cl.2)) as int }) + ch.0.cmodels * (if cl.2 > ch.2 { pow2(exp32(cl.2 - ch.2)) as int } else { 1int }),
        e.0.models == cl.0.models * (if cl.2 > ch.2 { 1int } else { pow2(exp32(ch.2 - cl.2)) as int }) + ch.0.models * (if cl.2 > ch.2 { pow2(exp32(cl.2 - ch.2)) as int } else { 1int }),
    ensures cc_models_ok(n, o.len() as int, e.0),
{
    assert(ext(o, n));
    assert(guard(n, o.len() as int));
    lemma_ext_models(o, n, node.lo.0 as int); lemma_ext_models(o, n, node.hi.0 as int);
    lemma_ext_depth(o, n, node.lo.0 as int); lemma_ext_depth(o, n, node.hi.0 as int);
    vstd::arithmetic::power2::lemma2_to64();
    assert(pow2(0) == 1);
}
pub proof fn lemma_counts_push(o: Seq<BddNode>, n: Seq<BddNode>, co: Map<Term, CountNode>, cn: Map<Term, CountNode>, node: BddNode, e: CountNode, nt: Term)
    requires counts_ok(o, co), n == o.push(node), cn == co.insert(nt, e), cc_ok(n, o.len() as int, e), nt.0 == o.len(),
    ensures counts_ok(n, cn),
{
    assert(ext(o, n));
    assert forall|t: Term| #[trigger] cn.contains_key(t) implies t.0 < n.len() && cc_ok(n, t.0 as int, cn[t]) by {
        if t != nt {
            assert(co.contains_key(t));
            lemma_ext_paths(o, n, t.0 as int); lemma_ext_depth(o, n, t.0 as int); lemma_ext_models(o, n, t.0 as int);
        }
    }
    assert forall|t: Term| t.0 < n.len() implies #[trigger] cn.contains_key(t) || !counts_all_present() by {
        if t.0 < o.len() { if counts_all_present() { lemma_all_present(o, co, t); } } else { assert(t == nt); }
    }
    lemma_all_present_intro(n, cn);
}
// entries stay right under extension of the node table
pub proof fn lemma_counts_present_ext(o: Seq<BddNode>, n: Seq<BddNode>, cc: Map<Term, CountNode>)
    requires counts_present_ok(o, cc), ext(o, n),
    ensures counts_present_ok(n, cc),
{
    assert forall|t: Term| #[trigger] cc.contains_key(t) implies t.0 < n.len() && cc_ok(n, t.0 as int, cc[t]) by {
        lemma_ext_paths(o, n, t.0 as int); lemma_ext_depth(o, n, t.0 as int); lemma_ext_models(o, n, t.0 as int);
    }
}
#[cfg(feature = "adhoccounting")]
pub open spec fn counts_all_present() -> bool { true }
#[cfg(not(feature = "adhoccounting"))]
pub open spec fn counts_all_present() -> bool { false }
#[cfg(feature = "adhoccounting")]
pub proof fn lemma_all_present(nodes: Seq<BddNode>, cc: Map<Term, CountNode>, t: Term)
    requires counts_ok(nodes, cc), t.0 < nodes.len(), ensures cc.contains_key(t) {}
#[cfg(not(feature = "adhoccounting"))]
pub proof fn lemma_all_present(nodes: Seq<BddNode>, cc: Map<Term, CountNode>, t: Term)
    requires counts_ok(nodes, cc), t.0 < nodes.len(), counts_all_present(), ensures cc.contains_key(t) {}
#[cfg(feature = "adhoccounting")]
pub proof fn lemma_all_present_intro(nodes: Seq<BddNode>, cc: Map<Term, CountNode>)
    requires counts_present_ok(nodes, cc), forall|t: Term| t.0 < nodes.len() ==> #[trigger] cc.contains_key(t) || !counts_all_present(),
    ensures counts_ok(nodes, cc) {}
#[cfg(not(feature = "adhoccounting"))]
pub proof fn lemma_all_present_intro(nodes: Seq<BddNode>, cc: Map<Term, CountNode>)
    requires counts_present_ok(nodes, cc), ensures counts_ok(nodes, cc) {}
// memoised model counting is exact except in the documented configuration (C12)
#[cfg(all(feature = "adhoccounting", not(feature = "adhoccountmodels")))]
pub open spec fn models_memo_exact() -> bool { false }
#[cfg(any(not(feature = "adhoccounting"), feature = "adhoccountmodels"))]
pub open spec fn models_memo_exact() -> bool { true }
pub open spec fn is_models(nodes: Seq<BddNode>, t: int, c: ModelCounts) -> bool { c.cmodels == models_spec(nodes, t).0 && c.models == models_spec(nodes, t).1 }
pub open spec fn is_paths(nodes: Seq<BddNode>, t: int, c: ModelCounts) -> bool { c.cmodels == paths_spec(nodes, t).0 && c.models == paths_spec(nodes, t).1 }
impl Bdd {
    pub open spec fn wf_core(&self) -> bool { core_ok(self.nodes@, self.cache@, self.ite_cache@, self.restrict_cache@) }
    pub open spec fn wf_memo(&self) -> bool { memo_ok(self.nodes@, self.ite_cache@, self.restrict_cache@) }
    #[cfg(feature = "variablelist")]
    pub open spec fn wf_deps(&self) -> bool { deps_ok(self.nodes@, self.var_deps@) }
    #[cfg(not(feature = "variablelist"))]
    pub open spec fn wf_deps(&self) -> bool { true }
    pub open spec fn wf_counts(&self) -> bool { counts_ok(self.nodes@, self.count_cache@) }
    // ---- C19: producer side of the streaming mirror
    #[cfg(feature = "frontend")]
    pub open spec fn wf_chan(&self) -> bool { self.producer_inv() }
    #[cfg(not(feature = "frontend"))]
    pub open spec fn wf_chan(&self) -> bool { true }

    pub open spec fn wf(&self) -> bool { self.wf_core() && self.wf_memo() && self.wf_deps() && self.wf_counts() && self.wf_chan() }

    #[cfg(feature = "variablelist")]
    pub open spec fn same_deps(&self, o: Bdd) -> bool { self.var_deps == o.var_deps }
    #[cfg(not(feature = "variablelist"))]
    pub open spec fn same_deps(&self, o: Bdd) -> bool { true }
    #[cfg(feature = "frontend")]
    pub open spec fn same_chan(&self, o: Bdd) -> bool { self.sender == o.sender && self.receiver == o.receiver && self.vx_sent@ == o.vx_sent@ && self.vx_recvd@ == o.vx_recvd@ }
    #[cfg(not(feature = "frontend"))]
    pub open spec fn same_chan(&self, o: Bdd) -> bool { true }
    // frame of the `&self` methods that only touch the (former RefCell) count table
    pub open spec fn same_but_counts(&self, o: Bdd) -> bool {
        self.nodes == o.nodes && self.cache == o.cache && self.ite_cache == o.ite_cache && self.restrict_cache == o.restrict_cache && self.same_deps(o) && self.same_chan(o)
    }
    #[cfg(feature = "variablelist")]
    pub open spec fn deps_empty(&self) -> bool { self.var_deps@.len() == 0 }
    #[cfg(not(feature = "variablelist"))]
    pub open spec fn deps_empty(&self) -> bool { true }
    #[cfg(feature = "frontend")]
    pub open spec fn chan_none(&self) -> bool { self.sender.is_none() && self.receiver.is_none() }
    #[cfg(not(feature = "frontend"))]
    pub open spec fn chan_none(&self) -> bool { true }
    // what serde leaves after an import: node table and unique table as exported (C06), every #[serde(skip)] field empty
    pub open spec fn wf_imported(&self) -> bool {
        &&& core_ok(self.nodes@, self.cache@, Map::<(Term, Term, Term), Term>::empty(), Map::<(Term, Var, bool), Term>::empty())
        &&& self.ite_cache@ =~= Map::<(Term, Term, Term), Term>::empty() && self.restrict_cache@ =~= Map::<(Term, Var, bool), Term>::empty()
        &&& self.deps_empty() && self.count_cache@ =~= Map::<Term, CountNode>::empty() && self.chan_none()
    }
    pub open spec fn active_cnt(&self, var: Var, tl: Seq<Term>, k: int) -> int
        decreases k
    { if k <= 0 { 0 } else { self.active_cnt(var, tl, k - 1) + if supp(self.nodes@, tl[var.0 as int].0 as int).contains(Var((k - 1) as usize)) { 1int } else { 0int } } }
    pub open spec fn impact_cnt(&self, var: Var, tl: Seq<Term>, k: int) -> int
        decreases k
    { if k <= 0 { 0 } else { self.impact_cnt(var, tl, k - 1) + if supp(self.nodes@, tl[k - 1].0 as int).contains(var) { 1int } else { 0int } } }
}
