// C04: the counting-guided pruning search Adf::two_val_model_counts_logic - completeness ("no model is lost to pruning")
// will_be records, for a statement whose one value has been explored, the value it must have: it is then already decided so
pub open spec fn wb_inv(c: Seq<Term>, w: Seq<Term>) -> bool { w.len() == c.len() && forall|i: int| 0 <= i < c.len() && decided(#[trigger] w[i]) ==> c[i] == w[i] }
pub open spec fn dep_ok(nodes: Seq<BddNode>, c: Seq<Term>, n: int) -> bool { forall|i: int| 0 <= i < c.len() ==> dep_below(den(nodes, (#[trigger] c[i]).0 as int), n) }
// every stable model that refines c is in the list
pub open spec fn covers(r: Seq<Vec<Term>>, fs: Seq<BF>, c: Seq<Term>) -> bool {
    forall|m: Seq<Term>| #[trigger] goal(fs, false, m) && le_tv(c, m) ==> in_list(r, m)
}
pub open spec fn in_list(r: Seq<Vec<Term>>, m: Seq<Term>) -> bool { exists|k: int| 0 <= k < r.len() && (#[trigger] r[k])@ == m }
pub open spec fn rowsv_ok(nodes: Seq<BddNode>, r: Seq<Vec<Term>>, n: int) -> bool { forall|k: int| 0 <= k < r.len() ==> (#[trigger] r[k])@.len() == n && handles_in(nodes, r[k]@) }
pub open spec fn tt(b: bool) -> Term { if b { Term(1) } else { Term(0) } }
pub proof fn lemma_in_list_append(a: Seq<Vec<Term>>, b: Seq<Vec<Term>>, m: Seq<Term>)
    ensures in_list(a, m) ==> in_list(a + b, m), in_list(b, m) ==> in_list(a + b, m)
{
    if in_list(a, m) { let k = choose|k: int| 0 <= k < a.len() && (#[trigger] a[k])@ == m; assert((a + b)[k] == a[k]); }
    if in_list(b, m) { let k = choose|k: int| 0 <= k < b.len() && (#[trigger] b[k])@ == m; assert((a + b)[a.len() + k] == b[k]); }
}
// a vector with the literals lits[0..k) set to t
pub open spec fn set_lits(c: Seq<Term>, lits: Seq<Var>, k: int, t: Term) -> Seq<Term>
    decreases k
{ if k <= 0 { c } else { set_lits(c, lits, k - 1, t).update(lits[k - 1].0 as int, t) } }
pub proof fn lemma_set_lits_len(c: Seq<Term>, lits: Seq<Var>, k: int, t: Term)
    requires 0 <= k <= lits.len(),
    ensures set_lits(c, lits, k, t).len() == c.len()
    decreases k
{ if k > 0 { lemma_set_lits_len(c, lits, k - 1, t); } }
// the model m evaluates the chosen statement's residual condition to the value the model gives the statement: its assignment
// lies in exactly one path cube towards that value
pub proof fn lemma_cube_of_model(nodes: Seq<BddNode>, fs: Seq<BF>, c: Seq<Term>, idx: int, cm: bool, cubes: Seq<(Vec<Var>, Vec<Var>)>, m: Seq<Term>)
    requires tracks(nodes, fs, c), goal(fs, false, m), le_tv(c, m), 0 <= idx < c.len(), c.len() < usize::MAX, und(c[idx]), (m[idx].0 == 1) == cm,
        cubes_ok(nodes, c[idx].0 as int, cm, Var(idx as usize), Seq::<Var>::empty(), Seq::<Var>::empty(), cubes),
    ensures exists|k: int| 0 <= k < cubes.len() && cube_sat(cubes[k].0@, cubes[k].1@, masg(m))
{
    let a = masg(m);
    assert(two_valued(m));
    assert(tracks_m(nodes, fs, c, m));
    lemma_stable_model(fs, false, m, idx);
    assert(decided(m[idx]));
    assert(a(idx as usize) == cm);
    assert(cube_sat(Seq::<Var>::empty(), Seq::<Var>::empty(), a));
    assert(den(nodes, c[idx].0 as int)(a) == cm);
}
// the variables of a path cube of a residual condition are declared statements
pub proof fn lemma_cube_vars_below(nodes: Seq<BddNode>, t: int, n: int, goal_: bool, gv: Var, cubes: Seq<(Vec<Var>, Vec<Var>)>, k: int)
    requires nodes_wf(nodes), nodup(nodes), 0 <= t < nodes.len(), dep_below(den(nodes, t), n), 0 <= k < cubes.len(),
        cubes_ok(nodes, t, goal_, gv, Seq::<Var>::empty(), Seq::<Var>::empty(), cubes),
    ensures forall|j: int| 0 <= j < cubes[k].0@.len() ==> (#[trigger] cubes[k].0@[j]).0 < n, forall|j: int| 0 <= j < cubes[k].1@.len() ==> (#[trigger] cubes[k].1@[j]).0 < n,
{
    assert(lits_ok(nodes, t, Seq::<Var>::empty(), cubes[k].0@) && lits_ok(nodes, t, Seq::<Var>::empty(), cubes[k].1@));
    assert forall|j: int| 0 <= j < cubes[k].0@.len() implies (#[trigger] cubes[k].0@[j]).0 < n by {
        let v = cubes[k].0@[j];
        assert(supp(nodes, t).contains(v));
        let a = lemma_supp_dep(nodes, t, v);
        if v.0 >= n { lemma_dep_below_indep(den(nodes, t), n, v.0); lemma_indep_eval(den(nodes, t), v.0, a); }
    }
    assert forall|j: int| 0 <= j < cubes[k].1@.len() implies (#[trigger] cubes[k].1@[j]).0 < n by {
        let v = cubes[k].1@[j];
        assert(supp(nodes, t).contains(v));
        let a = lemma_supp_dep(nodes, t, v);
        if v.0 >= n { lemma_dep_below_indep(den(nodes, t), n, v.0); lemma_indep_eval(den(nodes, t), v.0, a); }
    }
}
// ---- decoding a path cube into the interpretation (the two literal loops)
pub open spec fn neg_all(m: Seq<Term>, lits: Seq<Var>, k: int) -> bool { forall|j: int| 0 <= j < k ==> m[(#[trigger] lits[j]).0 as int].0 == 0 }
pub open spec fn pos_all(m: Seq<Term>, lits: Seq<Var>, k: int) -> bool { forall|j: int| 0 <= j < k ==> m[(#[trigger] lits[j]).0 as int].0 == 1 }
// c1 arises from c0 by deciding undecided entries only
pub open spec fn keeps(c0: Seq<Term>, c1: Seq<Term>) -> bool { le_tv(c0, c1) && forall|p: int| 0 <= p < c0.len() && !decided(#[trigger] c1[p]) ==> c1[p] == c0[p] }
pub open spec fn follow_neg(c0: Seq<Term>, c1: Seq<Term>, lits: Seq<Var>, k: int) -> bool {
    forall|m: Seq<Term>| two_valued(m) && #[trigger] le_tv(c0, m) && neg_all(m, lits, k) ==> le_tv(c1, m)
}
pub open spec fn follow_pos(c0: Seq<Term>, c1: Seq<Term>, lits: Seq<Var>, k: int) -> bool {
    forall|m: Seq<Term>| two_valued(m) && #[trigger] le_tv(c0, m) && pos_all(m, lits, k) ==> le_tv(c1, m)
}
pub open spec fn none_neg(c0: Seq<Term>, lits: Seq<Var>) -> bool { forall|m: Seq<Term>| two_valued(m) && #[trigger] le_tv(c0, m) ==> !neg_all(m, lits, lits.len() as int) }
pub open spec fn none_pos(c0: Seq<Term>, lits: Seq<Var>) -> bool { forall|m: Seq<Term>| two_valued(m) && #[trigger] le_tv(c0, m) ==> !pos_all(m, lits, lits.len() as int) }
pub proof fn lemma_keeps_refl(c: Seq<Term>) ensures keeps(c, c), forall|l: Seq<Var>| follow_neg(c, c, l, 0) && follow_pos(c, c, l, 0) { }
pub proof fn lemma_neg_step(c0: Seq<Term>, c1: Seq<Term>, lits: Seq<Var>, k: int)
    requires keeps(c0, c1), follow_neg(c0, c1, lits, k), 0 <= k < lits.len(), (lits[k].0 as int) < c0.len(), c1.len() == c0.len(), c1[lits[k].0 as int].0 != 1,
    ensures keeps(c0, c1.update(lits[k].0 as int, Term(0))), follow_neg(c0, c1.update(lits[k].0 as int, Term(0)), lits, k + 1)
{
    let x = lits[k].0 as int; let c2 = c1.update(x, Term(0));
    assert(le_tv(c0, c2)) by { assert forall|p: int| 0 <= p < c0.len() && decided(#[trigger] c0[p]) implies c2[p] == c0[p] by { assert(c1[p] == c0[p]); } }
    assert forall|m: Seq<Term>| two_valued(m) && #[trigger] le_tv(c0, m) && neg_all(m, lits, k + 1) implies le_tv(c2, m) by {
        assert(neg_all(m, lits, k)) by { assert forall|j: int| 0 <= j < k implies m[(#[trigger] lits[j]).0 as int].0 == 0 by { } }
        assert(le_tv(c1, m));
        assert(m[lits[k].0 as int].0 == 0);
        assert forall|p: int| 0 <= p < c2.len() && decided(#[trigger] c2[p]) implies m[p] == c2[p] by { if p != x { assert(c2[p] == c1[p]); } else { assert(decided(m[p])); } }
    }
}
pub proof fn lemma_neg_block(c0: Seq<Term>, c1: Seq<Term>, lits: Seq<Var>, k: int, w: Seq<Term>)
    requires follow_neg(c0, c1, lits, k), wb_inv(c0, w), 0 <= k < lits.len(), (lits[k].0 as int) < c0.len(), c1.len() == c0.len(),
        c1[lits[k].0 as int].0 == 1 || w[lits[k].0 as int] == Term(1),
    ensures none_neg(c0, lits)
{
    let x = lits[k].0 as int;
    assert forall|m: Seq<Term>| two_valued(m) && #[trigger] le_tv(c0, m) implies !neg_all(m, lits, lits.len() as int) by {
        if neg_all(m, lits, lits.len() as int) {
            assert(neg_all(m, lits, k)) by { assert forall|j: int| 0 <= j < k implies m[(#[trigger] lits[j]).0 as int].0 == 0 by { } }
            assert(le_tv(c1, m));
            assert(m[lits[k].0 as int].0 == 0);
            if c1[x].0 == 1 { assert(decided(c1[x])); } else { assert(decided(w[x])); assert(c0[x] == w[x]); assert(decided(c0[x])); }
        }
    }
}
pub proof fn lemma_pos_step(c0: Seq<Term>, c1: Seq<Term>, lits: Seq<Var>, k: int)
    requires keeps(c0, c1), follow_pos(c0, c1, lits, k), 0 <= k < lits.len(), (lits[k].0 as int) < c0.len(), c1.len() == c0.len(), !(decided(c1[lits[k].0 as int]) && c1[lits[k].0 as int].0 != 1),
    ensures keeps(c0, c1.update(lits[k].0 as int, Term(1))), follow_pos(c0, c1.update(lits[k].0 as int, Term(1)), lits, k + 1)
{
    let x = lits[k].0 as int; let c2 = c1.update(x, Term(1));
    assert(le_tv(c0, c2)) by { assert forall|p: int| 0 <= p < c0.len() && decided(#[trigger] c0[p]) implies c2[p] == c0[p] by { assert(c1[p] == c0[p]); } }
    assert forall|m: Seq<Term>| two_valued(m) && #[trigger] le_tv(c0, m) && pos_all(m, lits, k + 1) implies le_tv(c2, m) by {
        assert(pos_all(m, lits, k)) by { assert forall|j: int| 0 <= j < k implies m[(#[trigger] lits[j]).0 as int].0 == 1 by { } }
        assert(le_tv(c1, m));
        assert(m[lits[k].0 as int].0 == 1);
        assert forall|p: int| 0 <= p < c2.len() && decided(#[trigger] c2[p]) implies m[p] == c2[p] by { if p != x { assert(c2[p] == c1[p]); } }
    }
}
pub proof fn lemma_pos_block(c0: Seq<Term>, c1: Seq<Term>, lits: Seq<Var>, k: int, w: Seq<Term>, base: Seq<Term>)
    requires follow_pos(c0, c1, lits, k), wb_inv(base, w), le_tv(base, c0), 0 <= k < lits.len(), (lits[k].0 as int) < c0.len(), c1.len() == c0.len(), base.len() == c0.len(),
        (decided(c1[lits[k].0 as int]) && c1[lits[k].0 as int].0 != 1) || w[lits[k].0 as int] == Term(0),
    ensures none_pos(c0, lits)
{
    let x = lits[k].0 as int;
    assert forall|m: Seq<Term>| two_valued(m) && #[trigger] le_tv(c0, m) implies !pos_all(m, lits, lits.len() as int) by {
        if pos_all(m, lits, lits.len() as int) {
            assert(pos_all(m, lits, k)) by { assert forall|j: int| 0 <= j < k implies m[(#[trigger] lits[j]).0 as int].0 == 1 by { } }
            assert(le_tv(c1, m));
            assert(m[lits[k].0 as int].0 == 1);
            if decided(c1[x]) && c1[x].0 != 1 { } else { assert(decided(w[x])); assert(base[x] == w[x]); assert(c0[x] == base[x]); assert(decided(c0[x])); }
        }
    }
}
// a two-valued m satisfies the cube  <==>  all negative literals are false and all positive ones true in m
pub proof fn lemma_cube_sat_lits(neg: Seq<Var>, pos: Seq<Var>, m: Seq<Term>)
    requires two_valued(m), forall|j: int| 0 <= j < neg.len() ==> ((#[trigger] neg[j]).0 as int) < m.len(), forall|j: int| 0 <= j < pos.len() ==> ((#[trigger] pos[j]).0 as int) < m.len(),
    ensures cube_sat(neg, pos, masg(m)) == (neg_all(m, neg, neg.len() as int) && pos_all(m, pos, pos.len() as int))
{
    if cube_sat(neg, pos, masg(m)) {
        assert forall|j: int| 0 <= j < neg.len() implies m[(#[trigger] neg[j]).0 as int].0 == 0 by { assert(!masg(m)(neg[j].0)); assert(decided(m[neg[j].0 as int])); }
        assert forall|j: int| 0 <= j < pos.len() implies m[(#[trigger] pos[j]).0 as int].0 == 1 by { assert(masg(m)(pos[j].0)); }
    }
    if neg_all(m, neg, neg.len() as int) && pos_all(m, pos, pos.len() as int) {
        assert forall|i: int| 0 <= i < neg.len() implies !masg(m)((#[trigger] neg[i]).0) by { assert(m[neg[i].0 as int].0 == 0); }
        assert forall|i: int| 0 <= i < pos.len() implies masg(m)((#[trigger] pos[i]).0) by { assert(m[pos[i].0 as int].0 == 1); }
    }
}
pub proof fn lemma_keeps_trans(a: Seq<Term>, b: Seq<Term>, c: Seq<Term>)
    requires keeps(a, b), keeps(b, c),
    ensures keeps(a, c)
{
    lemma_le_trans(a, b, c);
    assert forall|p: int| 0 <= p < a.len() && !decided(#[trigger] c[p]) implies c[p] == a[p] by { assert(c[p] == b[p]); assert(!decided(b[p])); }
}
// after both literal loops: the decoded vector is refined by exactly the refinements of c that satisfy the cube
pub open spec fn cube_dec(c: Seq<Term>, neg: Seq<Var>, pos: Seq<Var>, nn: Seq<Term>) -> bool {
    keeps(c, nn) && forall|m: Seq<Term>| two_valued(m) && #[trigger] le_tv(c, m) && cube_sat(neg, pos, masg(m)) ==> le_tv(nn, m)
}
pub open spec fn cube_none(c: Seq<Term>, neg: Seq<Var>, pos: Seq<Var>) -> bool {
    forall|m: Seq<Term>| two_valued(m) && #[trigger] le_tv(c, m) ==> !cube_sat(neg, pos, masg(m))
}
pub open spec fn lits_below(l: Seq<Var>, n: int) -> bool { forall|j: int| 0 <= j < l.len() ==> ((#[trigger] l[j]).0 as int) < n }
pub proof fn lemma_lits_done(c: Seq<Term>, b2: Seq<Term>, nn: Seq<Term>, neg: Seq<Var>, pos: Seq<Var>, ok: bool)
    requires lits_below(neg, c.len() as int), lits_below(pos, c.len() as int), keeps(c, b2), keeps(b2, nn),
        ok ==> follow_neg(c, b2, neg, neg.len() as int) && follow_pos(b2, nn, pos, pos.len() as int),
        !ok ==> none_neg(c, neg) || (follow_neg(c, b2, neg, neg.len() as int) && none_pos(b2, pos)),
    ensures ok ==> cube_dec(c, neg, pos, nn), !ok ==> cube_none(c, neg, pos)
{
    lemma_keeps_trans(c, b2, nn);
    assert forall|m: Seq<Term>| two_valued(m) && #[trigger] le_tv(c, m) && cube_sat(neg, pos, masg(m)) implies ok && le_tv(nn, m) by {
        lemma_cube_sat_lits(neg, pos, m);
        if !ok { if !none_neg(c, neg) { assert(le_tv(b2, m)); } }
        else { assert(le_tv(b2, m)); }
    }
}
// ---- the precondition of the recursion
pub open spec fn pre_ok(nodes: Seq<BddNode>, fs: Seq<BF>, c: Seq<Term>, w: Seq<Term>) -> bool {
    &&& c.len() == fs.len() && w.len() == fs.len() && fs.len() < usize::MAX - 1 && nodes.len() >= 2
    &&& handles_in(nodes, c)
    &&& dep_ok(nodes, c, fs.len() as int)
    &&& tracks(nodes, fs, c)
    &&& wb_inv(c, w)
}
pub proof fn lemma_pre_ext(o: Seq<BddNode>, n: Seq<BddNode>, fs: Seq<BF>, c: Seq<Term>, w: Seq<Term>)
    requires pre_ok(o, fs, c, w), ext(o, n),
    ensures pre_ok(n, fs, c, w)
{
    lemma_tracks_ext(o, n, fs, c);
    assert forall|i: int| 0 <= i < c.len() implies dep_below(den(n, (#[trigger] c[i]).0 as int), fs.len() as int) by { lemma_ext_den(o, n, c[i].0 as int); }
}
// number of decided entries (bounds the recursion depth)
pub open spec fn dcnt(c: Seq<Term>, k: int) -> int decreases k { if k <= 0 { 0 } else { dcnt(c, k - 1) + if decided(c[k - 1]) { 1int } else { 0int } } }
pub proof fn lemma_dcnt_bound(c: Seq<Term>, k: int) requires 0 <= k <= c.len(), ensures 0 <= dcnt(c, k) <= k decreases k { if k > 0 { lemma_dcnt_bound(c, k - 1); } }
pub proof fn lemma_dcnt_mono(c: Seq<Term>, c2: Seq<Term>, idx: int, k: int)
    requires le_tv(c, c2), 0 <= k <= c.len(), 0 <= idx < c.len(), !decided(c[idx]), decided(c2[idx]),
    ensures dcnt(c2, k) >= dcnt(c, k) + (if idx < k { 1int } else { 0int })
    decreases k
{ if k > 0 { lemma_dcnt_mono(c, c2, idx, k - 1); if decided(c[k - 1]) { assert(c2[k - 1] == c[k - 1]); } } }
pub proof fn lemma_dec_dep(nodes: Seq<BddNode>, t: Term, n: int)
    requires decided(t),
    ensures dep_below(den(nodes, t.0 as int), n)
{ lemma_den_const(nodes, t); }
pub proof fn lemma_np_handles(nodes: Seq<BddNode>, c: Seq<Term>, nn: Seq<Term>, idx: int, t: Term)
    requires keeps(c, nn), handles_in(nodes, c), nodes.len() >= 2, decided(t), 0 <= idx < c.len(),
    ensures handles_in(nodes, nn.update(idx, t)), handles_in(nodes, nn)
{
    assert forall|j: int| 0 <= j < nn.len() implies (#[trigger] nn[j]).0 < nodes.len() by { if !decided(nn[j]) { assert(nn[j] == c[j]); } }
}
// one path cube decoded (nn), the chosen statement set to the goal value (np), one update step (upd): the recursion's precondition
// holds again, and every stable model that refines np refines upd
pub proof fn lemma_cube_step(o: Seq<BddNode>, n: Seq<BddNode>, fs: Seq<BF>, c: Seq<Term>, w: Seq<Term>, nn: Seq<Term>, upd: Seq<Term>, idx: int, cm: bool)
    requires pre_ok(o, fs, c, w), 0 <= idx < c.len(), !decided(c[idx]), keeps(c, nn),
        nodes_wf(n), nodup(n), ext(o, n), handles_in(n, upd), upd.len() == c.len(),
        forall|i: int| 0 <= i < c.len() ==> den(n, (#[trigger] upd[i]).0 as int) == cof(den(o, nn.update(idx, tt(cm))[i].0 as int), nn.update(idx, tt(cm)), c.len() as int),
    ensures pre_ok(n, fs, upd, w), le_tv(c, upd), decided(upd[idx]), le_tv(nn.update(idx, tt(cm)), upd),
        forall|m: Seq<Term>| #[trigger] goal(fs, false, m) && le_tv(nn.update(idx, tt(cm)), m) ==> le_tv(upd, m),
        forall|j: int| 0 <= j < c.len() ==> no_inf_incons(#[trigger] w[j], upd[j]),
{
    let np = nn.update(idx, tt(cm));
    let k = c.len() as int;
    assert(le_tv(c, np)) by { assert forall|p: int| 0 <= p < k && decided(#[trigger] c[p]) implies np[p] == c[p] by { assert(nn[p] == c[p]); } }
    assert forall|p: int| 0 <= p < k && und(#[trigger] np[p]) implies np[p] == c[p] by { assert(np[p] == nn[p]); assert(!decided(nn[p])); }
    lemma_tracks_more_decided(o, fs, c, np);
    lemma_np_handles(o, c, nn, idx, tt(cm));
    lemma_update_step(o, n, fs, false, np, upd);
    lemma_le_trans(c, np, upd);
    assert(decided(np[idx]));
    assert(upd[idx] == np[idx]);
    assert forall|i: int| 0 <= i < k implies dep_below(den(n, (#[trigger] upd[i]).0 as int), k) by {
        if decided(np[i]) { lemma_dec_dep(o, np[i], k); } else { assert(np[i] == c[i]); }
        lemma_dep_cof(den(o, np[i].0 as int), k, np, k);
    }
    assert forall|i: int| 0 <= i < k && decided(#[trigger] w[i]) implies upd[i] == w[i] by { assert(c[i] == w[i]); assert(decided(c[i])); }
}
// ---- "the other value": every entry restricted by idx := b (rr), one update step on that (u0), then idx itself set to b
pub open spec fn other_ok(rr: Seq<Term>, idx: int, b: bool) -> bool { decided(rr[idx]) ==> rr[idx] == tt(b) }
pub proof fn lemma_masg_at(m: Seq<Term>, p: int)
    requires 0 <= p < m.len(), m.len() < usize::MAX,
    ensures masg(m)(p as usize) == (m[p].0 == 1)
{ }
pub proof fn lemma_other_step(o: Seq<BddNode>, n1: Seq<BddNode>, n2: Seq<BddNode>, fs: Seq<BF>, c: Seq<Term>, w: Seq<Term>, rr: Seq<Term>, u0: Seq<Term>, idx: int, b: bool)
    requires pre_ok(o, fs, c, w), 0 <= idx < c.len(), !decided(c[idx]),
        nodes_wf(n1), nodup(n1), nodes_wf(n2), nodup(n2), ext(o, n1), ext(n1, n2), handles_in(n1, rr), handles_in(n2, u0), rr.len() == c.len(), u0.len() == c.len(),
        forall|i: int| 0 <= i < c.len() ==> den(n1, (#[trigger] rr[i]).0 as int) == bf_restrict(den(o, c[i].0 as int), idx as usize, b),
        forall|i: int| 0 <= i < c.len() ==> den(n2, (#[trigger] u0[i]).0 as int) == cof(den(n1, rr[i].0 as int), rr, c.len() as int),
    ensures
        // the first test of the code always passes
        no_inf_incons(rr[idx], u0[idx]),
        // a stable model with value b at idx passes the second test and refines the concluded vector
        forall|m: Seq<Term>| #[trigger] goal(fs, false, m) && le_tv(c, m) && m[idx] == tt(b) ==> other_ok(rr, idx, b) && le_tv(u0.update(idx, tt(b)), m),
        // where the second test passes the recursion's precondition holds for the concluded vector
        other_ok(rr, idx, b) ==> pre_ok(n2, fs, u0.update(idx, tt(b)), w.update(idx, rr[idx])) && le_tv(c, u0.update(idx, tt(b))),
{
    let k = c.len() as int;
    let u = u0.update(idx, tt(b));
    // decided entries stay (canonicity)
    assert forall|p: int| 0 <= p < k && decided(#[trigger] c[p]) implies rr[p] == c[p] by {
        lemma_den_is_const(o, c[p]);
        law_restrict_const(c[p].0 == 1, idx as usize, b);
        lemma_ext_den(o, n1, c[p].0 as int);
        lemma_canon(n1, rr[p].0 as int, c[p].0 as int);
    }
    assert forall|p: int| 0 <= p < k && decided(#[trigger] rr[p]) implies u0[p] == rr[p] by {
        lemma_den_is_const(n1, rr[p]);
        lemma_cof_const(rr[p].0 == 1, rr, k);
        lemma_ext_den(n1, n2, rr[p].0 as int);
        lemma_canon(n2, u0[p].0 as int, rr[p].0 as int);
    }
    // at an assignment with value b at idx the restricted entries evaluate like the original ones
    assert forall|m: Seq<Term>, p: int| two_valued(m) && le_tv(c, m) && m[idx] == tt(b) && 0 <= p < k implies #[trigger] den(n1, rr[p].0 as int)(masg(m)) == den(o, c[p].0 as int)(masg(m)) by {
        lemma_masg_at(m, idx);
        law_restrict_same(den(o, c[p].0 as int), idx as usize, masg(m));
    }
    assert forall|m: Seq<Term>| #[trigger] goal(fs, false, m) && le_tv(c, m) && m[idx] == tt(b) implies other_ok(rr, idx, b) && le_tv(u, m) by {
        assert(two_valued(m));
        assert(tracks_m(o, fs, c, m));
        assert forall|p: int| 0 <= p < k && decided(#[trigger] rr[p]) implies m[p] == rr[p] by {
            if decided(c[p]) { assert(rr[p] == c[p]); } else {
                assert(und(c[p]));
                lemma_stable_model(fs, false, m, p);
                assert(den(n1, rr[p].0 as int)(masg(m)) == den(o, c[p].0 as int)(masg(m)));
                lemma_den_const(n1, rr[p]);
                assert(decided(m[p]));
            }
        }
        assert(le_tv(rr, m));
        assert forall|p: int| 0 <= p < k && decided(#[trigger] u[p]) implies m[p] == u[p] by {
            if p != idx {
                assert(u[p] == u0[p]);
                if decided(rr[p]) { assert(u0[p] == rr[p]); } else {
                    assert(und(c[p])) by { if decided(c[p]) { assert(rr[p] == c[p]); } }
                    lemma_cof_refines(den(n1, rr[p].0 as int), rr, m);
                    lemma_stable_model(fs, false, m, p);
                    assert(den(n1, rr[p].0 as int)(masg(m)) == den(o, c[p].0 as int)(masg(m)));
                    lemma_den_const(n2, u0[p]);
                    assert(decided(m[p]));
                }
            }
        }
    }
    if decided(rr[idx]) { assert(u0[idx] == rr[idx]); }
    if other_ok(rr, idx, b) {
        assert(le_tv(c, u)) by { assert forall|p: int| 0 <= p < k && decided(#[trigger] c[p]) implies u[p] == c[p] by { assert(rr[p] == c[p]); assert(u0[p] == rr[p]); } }
        assert forall|m: Seq<Term>| two_valued(m) && #[trigger] le_tv(u, m) implies tracks_m(n2, fs, u, m) by {
            assert(m[idx] == tt(b)) by { assert(decided(u[idx])); }
            lemma_le_trans(c, u, m);
            assert(le_tv(rr, m)) by {
                assert forall|q: int| 0 <= q < k && decided(#[trigger] rr[q]) implies m[q] == rr[q] by { assert(u0[q] == rr[q]); if q != idx { assert(u[q] == u0[q]); assert(decided(u[q])); } }
            }
            assert(tracks_m(o, fs, c, m));
            assert forall|p: int| 0 <= p < k && und(#[trigger] u[p]) implies den(n2, u[p].0 as int)(masg(m)) == fs[p](masg(m)) by {
                assert(p != idx);
                assert(u[p] == u0[p]);
                assert(und(c[p])) by { if decided(c[p]) { assert(rr[p] == c[p]); assert(u0[p] == rr[p]); } }
                lemma_cof_refines(den(n1, rr[p].0 as int), rr, m);
                assert(den(n1, rr[p].0 as int)(masg(m)) == den(o, c[p].0 as int)(masg(m)));
            }
        }
        assert forall|i: int| 0 <= i < k implies dep_below(den(n2, (#[trigger] u[i]).0 as int), k) by {
            if i == idx { lemma_dec_dep(n2, tt(b), k); } else {
                lemma_dep_restrict(den(o, c[i].0 as int), k, idx as usize, b);
                lemma_dep_cof(den(n1, rr[i].0 as int), k, rr, k);
            }
        }
        let w2 = w.update(idx, rr[idx]);
        assert forall|i: int| 0 <= i < k && decided(#[trigger] w2[i]) implies u[i] == w2[i] by {
            if i != idx { assert(w2[i] == w[i]); assert(c[i] == w[i]); assert(decided(c[i])); assert(u[i] == c[i]); }
        }
        assert(handles_in(n2, u));
    }
}
// ---- coverage bookkeeping of the cube loop
pub open spec fn half_cov(r: Seq<Vec<Term>>, fs: Seq<BF>, c: Seq<Term>, idx: int, b: bool) -> bool {
    forall|m: Seq<Term>| #[trigger] goal(fs, false, m) && le_tv(c, m) && m[idx] == tt(b) ==> in_list(r, m)
}
pub open spec fn cube_cov(cubes: Seq<(Vec<Var>, Vec<Var>)>, k: int, fs: Seq<BF>, c: Seq<Term>, idx: int, cm: bool, r: Seq<Vec<Term>>) -> bool {
    forall|m: Seq<Term>, j: int| 0 <= j < k && #[trigger] goal(fs, false, m) && le_tv(c, m) && m[idx] == tt(cm) && #[trigger] cube_sat(cubes[j].0@, cubes[j].1@, masg(m)) ==> in_list(r, m)
}
pub proof fn lemma_cube_cov_skip(cubes: Seq<(Vec<Var>, Vec<Var>)>, k: int, fs: Seq<BF>, c: Seq<Term>, idx: int, cm: bool, r: Seq<Vec<Term>>)
    requires cube_cov(cubes, k, fs, c, idx, cm, r), 0 <= k < cubes.len(), cube_none(c, cubes[k].0@, cubes[k].1@),
    ensures cube_cov(cubes, k + 1, fs, c, idx, cm, r)
{
    assert forall|m: Seq<Term>, j: int| 0 <= j < k + 1 && #[trigger] goal(fs, false, m) && le_tv(c, m) && m[idx] == tt(cm) && #[trigger] cube_sat(cubes[j].0@, cubes[j].1@, masg(m)) implies in_list(r, m) by {
        if j == k { assert(two_valued(m)); }
    }
}
// the branch was pruned although no stable model can be lost: nothing refines the pruned vector
pub proof fn lemma_cube_cov_take(cubes: Seq<(Vec<Var>, Vec<Var>)>, k: int, fs: Seq<BF>, c: Seq<Term>, idx: int, cm: bool, r: Seq<Vec<Term>>, r2: Seq<Vec<Term>>, nn: Seq<Term>, upd: Seq<Term>)
    requires cube_cov(cubes, k, fs, c, idx, cm, r), 0 <= k < cubes.len(), 0 <= idx < c.len(), cube_dec(c, cubes[k].0@, cubes[k].1@, nn),
        forall|m: Seq<Term>| #[trigger] goal(fs, false, m) && le_tv(nn.update(idx, tt(cm)), m) ==> le_tv(upd, m),
        covers(r2, fs, upd),
    ensures cube_cov(cubes, k + 1, fs, c, idx, cm, r + r2)
{
    assert forall|m: Seq<Term>, j: int| 0 <= j < k + 1 && #[trigger] goal(fs, false, m) && le_tv(c, m) && m[idx] == tt(cm) && #[trigger] cube_sat(cubes[j].0@, cubes[j].1@, masg(m)) implies in_list(r + r2, m) by {
        lemma_in_list_append(r, r2, m);
        if j == k {
            assert(two_valued(m));
            assert(le_tv(nn, m));
            let np = nn.update(idx, tt(cm));
            assert(le_tv(np, m)) by { assert forall|p: int| 0 <= p < np.len() && decided(#[trigger] np[p]) implies m[p] == np[p] by { if p != idx { assert(np[p] == nn[p]); } } }
            assert(le_tv(upd, m));
            assert(in_list(r2, m));
        } else { assert(in_list(r, m)); }
    }
}
pub proof fn lemma_cube_cov_done(nodes: Seq<BddNode>, cubes: Seq<(Vec<Var>, Vec<Var>)>, fs: Seq<BF>, c: Seq<Term>, idx: int, cm: bool, r: Seq<Vec<Term>>)
    requires cube_cov(cubes, cubes.len() as int, fs, c, idx, cm, r), tracks(nodes, fs, c), 0 <= idx < c.len(), c.len() < usize::MAX, und(c[idx]),
        cubes_ok(nodes, c[idx].0 as int, cm, Var(idx as usize), Seq::<Var>::empty(), Seq::<Var>::empty(), cubes),
    ensures half_cov(r, fs, c, idx, cm)
{
    assert forall|m: Seq<Term>| #[trigger] goal(fs, false, m) && le_tv(c, m) && m[idx] == tt(cm) implies in_list(r, m) by {
        lemma_cube_of_model(nodes, fs, c, idx, cm, cubes, m);
        let k = choose|k: int| 0 <= k < cubes.len() && cube_sat(cubes[k].0@, cubes[k].1@, masg(m));
        assert(cube_sat(cubes[k].0@, cubes[k].1@, masg(m)));
    }
}
pub proof fn lemma_half_append(r: Seq<Vec<Term>>, r2: Seq<Vec<Term>>, fs: Seq<BF>, c: Seq<Term>, idx: int, b: bool)
    ensures half_cov(r, fs, c, idx, b) ==> half_cov(r + r2, fs, c, idx, b), half_cov(r2, fs, c, idx, b) ==> half_cov(r + r2, fs, c, idx, b)
{
    assert forall|m: Seq<Term>| true implies (in_list(r, m) ==> #[trigger] in_list(r + r2, m)) && (in_list(r2, m) ==> in_list(r + r2, m)) by { lemma_in_list_append(r, r2, m); }
}
pub proof fn lemma_halves(r: Seq<Vec<Term>>, fs: Seq<BF>, c: Seq<Term>, idx: int)
    requires half_cov(r, fs, c, idx, true), half_cov(r, fs, c, idx, false), 0 <= idx < c.len(), c.len() == fs.len(),
    ensures covers(r, fs, c)
{
    assert forall|m: Seq<Term>| #[trigger] goal(fs, false, m) && le_tv(c, m) implies in_list(r, m) by { assert(decided(m[idx])); assert(m[idx] == tt(true) || m[idx] == tt(false)); }
}
// no stable model with value b at idx refines c
pub proof fn lemma_half_none(r: Seq<Vec<Term>>, fs: Seq<BF>, c: Seq<Term>, idx: int, b: bool)
    requires forall|m: Seq<Term>| #[trigger] goal(fs, false, m) && le_tv(c, m) ==> m[idx] != tt(b),
    ensures half_cov(r, fs, c, idx, b)
{ }
// covers of the concluded vector gives the half
pub proof fn lemma_half_from_covers(r2: Seq<Vec<Term>>, fs: Seq<BF>, c: Seq<Term>, u: Seq<Term>, idx: int, b: bool)
    requires covers(r2, fs, u), forall|m: Seq<Term>| #[trigger] goal(fs, false, m) && le_tv(c, m) && m[idx] == tt(b) ==> le_tv(u, m),
    ensures half_cov(r2, fs, c, idx, b)
{ }
// the leaf: a two-valued vector is refined by itself only
pub proof fn lemma_leaf_covers(r: Seq<Vec<Term>>, fs: Seq<BF>, c: Seq<Term>)
    requires r.len() == 1, r[0]@ == c, two_valued(c),
    ensures covers(r, fs, c)
{
    assert forall|m: Seq<Term>| #[trigger] goal(fs, false, m) && le_tv(c, m) implies in_list(r, m) by { assert(m =~= c); }
}
pub proof fn lemma_den_is_const(nodes: Seq<BddNode>, t: Term) requires decided(t), ensures den(nodes, t.0 as int) == bf_const(t.0 == 1) { }
pub proof fn lemma_handles_ext(o: Seq<BddNode>, n: Seq<BddNode>, v: Seq<Term>) requires handles_in(o, v), o.len() <= n.len(), ensures handles_in(n, v) { }
pub open spec fn rows_len(r: Seq<Vec<Term>>, n: int) -> bool { forall|k: int| 0 <= k < r.len() ==> (#[trigger] r[k])@.len() == n }
pub proof fn lemma_rows_append(a: Seq<Vec<Term>>, b: Seq<Vec<Term>>, n: int) requires rows_len(a, n), rows_len(b, n), ensures rows_len(a + b, n)
{ assert forall|k: int| 0 <= k < (a + b).len() implies (#[trigger] (a + b)[k])@.len() == n by { if k < a.len() { assert((a + b)[k] == a[k]); } else { assert((a + b)[k] == b[k - a.len()]); } } }
// ---- each once: every row is a two-valued refinement of the vector the call was given, and no row occurs twice
pub open spec fn rows_ref(r: Seq<Vec<Term>>, c: Seq<Term>) -> bool { forall|k: int| 0 <= k < r.len() ==> two_valued((#[trigger] r[k])@) && le_tv(c, r[k]@) }
pub open spec fn rows_distinct(r: Seq<Vec<Term>>) -> bool { forall|k1: int, k2: int| 0 <= k1 < k2 < r.len() ==> (#[trigger] r[k1])@ != (#[trigger] r[k2])@ }
// the rows collected from the first k path cubes: the chosen statement has the goal value and the row lies in one of those cubes
pub open spec fn cube_rows(cubes: Seq<(Vec<Var>, Vec<Var>)>, k: int, idx: int, cm: bool, r: Seq<Vec<Term>>) -> bool {
    forall|p: int| 0 <= p < r.len() ==> (#[trigger] r[p])@[idx] == tt(cm) && exists|j: int| 0 <= j < k && #[trigger] cube_sat(cubes[j].0@, cubes[j].1@, masg(r[p]@))
}
pub proof fn lemma_cube_rows_mono(cubes: Seq<(Vec<Var>, Vec<Var>)>, k: int, idx: int, cm: bool, r: Seq<Vec<Term>>)
    requires cube_rows(cubes, k, idx, cm, r),
    ensures cube_rows(cubes, k + 1, idx, cm, r)
{
    assert forall|p: int| 0 <= p < r.len() implies (#[trigger] r[p])@[idx] == tt(cm) && exists|j: int| 0 <= j < k + 1 && #[trigger] cube_sat(cubes[j].0@, cubes[j].1@, masg(r[p]@)) by {
        let j = choose|j: int| 0 <= j < k && #[trigger] cube_sat(cubes[j].0@, cubes[j].1@, masg(r[p]@));
        assert(cube_sat(cubes[j].0@, cubes[j].1@, masg(r[p]@)));
    }
}
// the rows of the k-th cube's sub-search (r2, refinements of the updated vector upd) lie in the k-th cube - the decoded vector nn
// carries its literals, the goal value written at idx does not contradict them (glit_ok) - and the cubes are pairwise disjoint:
// appended to the rows of the earlier cubes, no row occurs twice
pub proof fn lemma_rows_take(nodes: Seq<BddNode>, cubes: Seq<(Vec<Var>, Vec<Var>)>, k: int, c: Seq<Term>, idx: int, cm: bool, r: Seq<Vec<Term>>, r2: Seq<Vec<Term>>, nn: Seq<Term>, upd: Seq<Term>)
    requires 0 <= k < cubes.len(), 0 <= idx < c.len(), c.len() < usize::MAX, nn.len() == c.len(),
        cubes_ok(nodes, c[idx].0 as int, cm, Var(idx as usize), Seq::<Var>::empty(), Seq::<Var>::empty(), cubes),
        cube_rows(cubes, k, idx, cm, r), rows_ref(r, c), rows_distinct(r),
        rows_ref(r2, upd), rows_distinct(r2),
        le_tv(c, upd), le_tv(nn.update(idx, tt(cm)), upd),
        lits_below(cubes[k].0@, c.len() as int), lits_below(cubes[k].1@, c.len() as int),
        neg_all(nn, cubes[k].0@, cubes[k].0@.len() as int), pos_all(nn, cubes[k].1@, cubes[k].1@.len() as int),
    ensures cube_rows(cubes, k + 1, idx, cm, r + r2), rows_ref(r + r2, c), rows_distinct(r + r2)
{
    let np = nn.update(idx, tt(cm));
    let neg = cubes[k].0@; let pos = cubes[k].1@;
    let gv = Var(idx as usize);
    assert(glit_ok(cm, gv, Seq::<Var>::empty(), Seq::<Var>::empty()));
    assert(glit_ok(cm, gv, neg, pos));
    assert forall|p: int| 0 <= p < r2.len() implies (#[trigger] r2[p])@[idx] == tt(cm) && cube_sat(neg, pos, masg(r2[p]@)) && le_tv(c, r2[p]@) by {
        let m = r2[p]@;
        assert(two_valued(m) && le_tv(upd, m));
        lemma_le_trans(np, upd, m);
        lemma_le_trans(c, upd, m);
        assert(decided(np[idx]) && m[idx] == np[idx]);
        assert forall|i: int| 0 <= i < neg.len() implies !masg(m)((#[trigger] neg[i]).0) by {
            let v = neg[i].0 as int;
            lemma_masg_at(m, v);
            assert(nn[v].0 == 0);
            if v == idx { assert(neg[i] == gv); assert(neg.contains(gv)); assert(!cm); } else { assert(np[v] == nn[v]); assert(decided(np[v])); }
        }
        assert forall|i: int| 0 <= i < pos.len() implies masg(m)((#[trigger] pos[i]).0) by {
            let v = pos[i].0 as int;
            lemma_masg_at(m, v);
            assert(nn[v].0 == 1);
            if v == idx { assert(pos[i] == gv); assert(pos.contains(gv)); assert(cm); } else { assert(np[v] == nn[v]); assert(decided(np[v])); }
        }
    }
    lemma_cube_rows_mono(cubes, k, idx, cm, r);
    let rr = r + r2;
    assert forall|p: int| 0 <= p < rr.len() implies (#[trigger] rr[p])@[idx] == tt(cm) && exists|j: int| 0 <= j < k + 1 && #[trigger] cube_sat(cubes[j].0@, cubes[j].1@, masg(rr[p]@)) by {
        if p < r.len() {
            assert(rr[p] == r[p]);
            let j = choose|j: int| 0 <= j < k + 1 && #[trigger] cube_sat(cubes[j].0@, cubes[j].1@, masg(r[p]@));
            assert(cube_sat(cubes[j].0@, cubes[j].1@, masg(rr[p]@)));
        } else {
            assert(rr[p] == r2[p - r.len()]);
            assert(cube_sat(cubes[k].0@, cubes[k].1@, masg(rr[p]@)));
        }
    }
    assert forall|p: int| 0 <= p < rr.len() implies two_valued((#[trigger] rr[p])@) && le_tv(c, rr[p]@) by {
        if p < r.len() { assert(rr[p] == r[p]); } else { assert(rr[p] == r2[p - r.len()]); }
    }
    assert forall|k1: int, k2: int| 0 <= k1 < k2 < rr.len() implies (#[trigger] rr[k1])@ != (#[trigger] rr[k2])@ by {
        if k2 < r.len() { assert(rr[k1] == r[k1] && rr[k2] == r[k2]); }
        else if k1 >= r.len() { assert(rr[k1] == r2[k1 - r.len()] && rr[k2] == r2[k2 - r.len()]); }
        else {
            assert(rr[k1] == r[k1] && rr[k2] == r2[k2 - r.len()]);
            let j = choose|j: int| 0 <= j < k && #[trigger] cube_sat(cubes[j].0@, cubes[j].1@, masg(r[k1]@));
            if rr[k1]@ == rr[k2]@ {
                assert(cube_sat(cubes[j].0@, cubes[j].1@, masg(rr[k2]@)));
                assert(cube_sat(cubes[k].0@, cubes[k].1@, masg(rr[k2]@)));
                assert(false);
            }
        }
    }
}
// the rows of the other value's sub-search differ from all rows collected so far at the chosen statement
pub proof fn lemma_rows_other(cubes: Seq<(Vec<Var>, Vec<Var>)>, c: Seq<Term>, idx: int, cm: bool, r: Seq<Vec<Term>>, r2: Seq<Vec<Term>>, u: Seq<Term>)
    requires 0 <= idx < c.len(), cube_rows(cubes, cubes.len() as int, idx, cm, r), rows_ref(r, c), rows_distinct(r),
        rows_ref(r2, u), rows_distinct(r2), le_tv(c, u), u[idx] == tt(!cm),
    ensures rows_ref(r + r2, c), rows_distinct(r + r2)
{
    let rr = r + r2;
    assert forall|p: int| 0 <= p < r2.len() implies (#[trigger] r2[p])@[idx] == tt(!cm) && le_tv(c, r2[p]@) by {
        lemma_le_trans(c, u, r2[p]@);
        assert(decided(u[idx]));
    }
    assert forall|p: int| 0 <= p < rr.len() implies two_valued((#[trigger] rr[p])@) && le_tv(c, rr[p]@) by {
        if p < r.len() { assert(rr[p] == r[p]); } else { assert(rr[p] == r2[p - r.len()]); }
    }
    assert forall|k1: int, k2: int| 0 <= k1 < k2 < rr.len() implies (#[trigger] rr[k1])@ != (#[trigger] rr[k2])@ by {
        if k2 < r.len() { assert(rr[k1] == r[k1] && rr[k2] == r[k2]); }
        else if k1 >= r.len() { assert(rr[k1] == r2[k1 - r.len()] && rr[k2] == r2[k2 - r.len()]); }
        else {
            assert(rr[k1] == r[k1] && rr[k2] == r2[k2 - r.len()]);
            assert(r[k1]@[idx] == tt(cm));
            assert(r2[k2 - r.len()]@[idx] == tt(!cm));
        }
    }
}
pub proof fn lemma_leaf_rows(r: Seq<Vec<Term>>, c: Seq<Term>)
    requires r.len() == 1, r[0]@ == c, two_valued(c),
    ensures rows_ref(r, c), rows_distinct(r)
{ }
pub proof fn lemma_rows_empty(c: Seq<Term>, cubes: Seq<(Vec<Var>, Vec<Var>)>, idx: int, cm: bool)
    ensures rows_ref(Seq::<Vec<Term>>::empty(), c), rows_distinct(Seq::<Vec<Term>>::empty()), cube_rows(cubes, 0, idx, cm, Seq::<Vec<Term>>::empty())
{ }
// ---- the entry: the grounded interpretation satisfies the recursion's precondition, and every stable model refines it
pub proof fn lemma_c04_entry(nodes: Seq<BddNode>, fs: Seq<BF>, g: Seq<Term>, w: Seq<Term>)
    requires g.len() == fs.len(), fs.len() < usize::MAX - 1, nodes.len() >= 2, handles_in(nodes, g), all_dep_below(fs), is_lfp(fs, tvs(g)),
        forall|i: int| 0 <= i < g.len() ==> den(nodes, (#[trigger] g[i]).0 as int) == cof(fs[i], g, g.len() as int),
        w.len() == g.len(), forall|i: int| 0 <= i < w.len() ==> (#[trigger] w[i]) == Term(2),
    ensures pre_ok(nodes, fs, g, w), forall|m: Seq<Term>| #[trigger] goal(fs, false, m) ==> le_tv(g, m),
{
    lemma_tracks_init(nodes, fs, g);
    lemma_stable_refines_lfp(fs, false, g);
    assert forall|i: int| 0 <= i < g.len() implies dep_below(den(nodes, (#[trigger] g[i]).0 as int), fs.len() as int) by { lemma_dep_cof(fs[i], fs.len() as int, g, g.len() as int); }
}
// the whole procedure: the list r covers the stable models that refine the grounded interpretation, and the result keeps
// exactly the rows of r that pass the stability test - so it contains every stable model, and stable models only
pub open spec fn ordered_src(r: Seq<Vec<Term>>, a: Seq<Term>, b: Seq<Term>) -> bool { exists|j1: int, j2: int| 0 <= j1 < j2 < r.len() && (#[trigger] r[j1])@ == a && (#[trigger] r[j2])@ == b }
pub proof fn lemma_c04_compose(fs: Seq<BF>, g: Seq<Term>, r: Seq<Vec<Term>>, out: Seq<Vec<Term>>)
    requires covers(r, fs, g), forall|m: Seq<Term>| #[trigger] goal(fs, false, m) ==> le_tv(g, m),
        // Iterator::filter keeps, in order, the rows for which the closure returned true (closure contract: true <==> stable)
        forall|k: int| 0 <= k < out.len() ==> is_stable(fs, (#[trigger] out[k])@) && in_list(r, out[k]@),
        forall|k: int| 0 <= k < r.len() && is_stable(fs, (#[trigger] r[k])@) ==> in_list(out, r[k]@),
        // ... and keeps them in order (a row of the output comes from an earlier row of r than the next one does)
        forall|k1: int, k2: int| 0 <= k1 < k2 < out.len() ==> ordered_src(r, (#[trigger] out[k1])@, (#[trigger] out[k2])@),
        rows_distinct(r),
    ensures forall|m: Seq<Term>| #[trigger] goal(fs, false, m) ==> in_list(out, m), forall|k: int| 0 <= k < out.len() ==> is_stable(fs, (#[trigger] out[k])@),
        // each stable model is reported once
        rows_distinct(out),
{
    assert forall|k1: int, k2: int| 0 <= k1 < k2 < out.len() implies (#[trigger] out[k1])@ != (#[trigger] out[k2])@ by {
        assert(ordered_src(r, out[k1]@, out[k2]@));
        let (j1, j2) = choose|j1: int, j2: int| 0 <= j1 < j2 < r.len() && (#[trigger] r[j1])@ == out[k1]@ && (#[trigger] r[j2])@ == out[k2]@;
        assert(r[j1]@ != r[j2]@);
    }
    assert forall|m: Seq<Term>| #[trigger] goal(fs, false, m) implies in_list(out, m) by {
        assert(in_list(r, m));
        let k = choose|k: int| 0 <= k < r.len() && (#[trigger] r[k])@ == m;
        assert(is_stable(fs, r[k]@));
    }
}
// the abstract comparator of the counting-guided search (rule M): any ordering may come out - the search is proved for every
// comparator that leaves the node table and the conditions alone (the real ones write the count cache only, which sits behind a RefCell)
pub open spec fn cmp_pre(adf: Adf, a: (Var, Term), b: (Var, Term), interpr: Seq<Term>) -> bool {
    adf.wf() && a.0.0 < interpr.len() && b.0.0 < interpr.len() && a.1.0 < adf.bdd.nodes@.len() && b.1.0 < adf.bdd.nodes@.len() && handles_in(adf.bdd.nodes@, interpr)
}
#[verifier::external_body]
fn __cmp_any(adf: &mut Adf, a: (Var, Term), b: (Var, Term), interpr: &[Term]) -> (r: std::cmp::Ordering)
    requires cmp_pre(*old(adf), a, b, interpr@),
    ensures final(adf).wf(), final(adf).ac == old(adf).ac, final(adf).bdd.nodes == old(adf).bdd.nodes,
{ unimplemented!() }
// ASSUMED: vec![Term::UND; n] is n copies of Term(2)
#[verifier::external_body]
fn __o_vec_und(n: usize) -> (r: Vec<Term>) ensures r@.len() == n, forall|i: int| 0 <= i < n ==> (#[trigger] r@[i]) == Term(2) { vec![Term::UND; n] }
