// rule S: opaque stubs for types the semantics functions carry along but never inspect here
#[verifier::external_body]
pub struct VarContainer { _p: core::marker::PhantomData<u8> }
#[verifier::external_body]
pub struct StdRng { _p: core::marker::PhantomData<u8> }
// slice -> Vec conversion (`.into()` has no vstd spec): outlined, the body is the expression
// ASSUMED: Vec<Term> == Vec<Term> is element-wise equality of the wrapped numbers (derived PartialEq of Term)
#[verifier::external_body]
fn __o_terms_eq(a: &Vec<Term>, b: &Vec<Term>) -> (r: bool) ensures r == (a@ == b@) { a == b }
