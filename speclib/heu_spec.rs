// C05 (a): what a branching heuristic must return - an undecided statement with a truth value, or None when nothing is undecided
pub open spec fn none_undecided(i: Seq<Term>) -> bool { forall|j: int| 0 <= j < i.len() ==> (#[trigger] i[j]).0 <= 1 }
pub open spec fn heu_ok(i: Seq<Term>, r: Option<(Var, Term)>) -> bool {
    match r { Some((v, t)) => v.0 < i.len() && i[v.0 as int].0 > 1 && t.0 <= 1, None => none_undecided(i) }
}
// rule S: rand::StdRng (ASSUMED: any u64 / any bool may come out; the result is a function of the generator state, which seed() fixes)
impl StdRng {
    #[verifier::external_body] pub fn next_u64(&mut self) -> u64 { unimplemented!() }
}
#[verifier::external_body]
fn __o_gen_bool_half(rng: &mut StdRng) -> bool { unimplemented!() /* rng.gen_bool(0.5) */ }
#[verifier::external_body]
fn __o_usize_try_from_u64(x: u64) -> (r: Result<usize, ()>) ensures r == Ok::<usize, ()>(x as usize) { usize::try_from(x).map_err(|_| ()) }
