use biodivine_lib_bdd::{boolean_expression::BooleanExpression, Bdd, BddVariableSet};
use biodivine_lib_bdd::{bio_den, bv_index, vs_index, restrict_list, esem, bio_nv, val_at, vs_n, BddValuation};
