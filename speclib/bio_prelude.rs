use biodivine_lib_bdd::{boolean_expression::BooleanExpression, Bdd, BddVariableSet};
use biodivine_lib_bdd::{bio_den, bv_index, vs_index, restrict_list, esem, bio_nv, val_at, vs_n, BddValuation};
// the flat unit file has no module tree: crate::datatypes::X is X
pub mod datatypes { pub use super::{Var, Term}; }
