// rule S + G: crossbeam_channel as an opaque stub with a prophetic message sequence (DESIGN §5 C19).
// ASSUMED (not checked): the channel is FIFO, lossless and duplication-free for one Sender and one Receiver,
// created fresh (nothing sent before the store received its end), and send / try_recv are atomic.
#[cfg(feature = "frontend")]
pub mod crossbeam_channel {
    use super::*;
    #[verifier::external_body] #[verifier::reject_recursive_types(T)] pub struct Sender<T> { _p: core::marker::PhantomData<T> }
    #[verifier::external_body] #[verifier::reject_recursive_types(T)] pub struct Receiver<T> { _p: core::marker::PhantomData<T> }
    pub struct SendError<T>(pub T);
    pub struct TryRecvError;
    pub tracked struct Tok { pub ghost n: nat }
    pub uninterp spec fn sid(s: &Sender<BddNode>) -> int;       // channel identity of a sender end
    pub uninterp spec fn rid(r: &Receiver<BddNode>) -> int;     // channel identity of a receiver end
    pub uninterp spec fn msg(chan: int, k: nat) -> BddNode;     // k-th message ever sent on the channel (prophetic)
    pub fn tok_new() -> (r: Tracked<Tok>) ensures r@.n == 0 { Tracked(Tok { n: 0 }) }
    impl Sender<BddNode> {
        #[verifier::external_body]
        pub fn send(&self, t: BddNode, Tracked(tok): Tracked<&mut Tok>) -> (r: Result<(), SendError<BddNode>>)
            ensures msg(sid(self), old(tok).n) == t, final(tok).n == old(tok).n + 1
        { unimplemented!() }
    }
    pub struct TrySendError<T>(pub T);
    impl Sender<BddNode> {
        // non-blocking send: may fail (bounded channel full / disconnected); nothing is enqueued then
        #[verifier::external_body]
        pub fn try_send(&self, t: BddNode, Tracked(tok): Tracked<&mut Tok>) -> (r: Result<(), TrySendError<BddNode>>)
            ensures r.is_ok() ==> msg(sid(self), old(tok).n) == t && final(tok).n == old(tok).n + 1, r.is_err() ==> final(tok).n == old(tok).n
        { unimplemented!() }
    }
    impl Receiver<BddNode> {
        #[verifier::external_body]
        pub fn try_recv(&self, Tracked(tok): Tracked<&mut Tok>) -> (r: Result<BddNode, TryRecvError>)
            ensures match r { Ok(x) => x == msg(rid(self), old(tok).n) && final(tok).n == old(tok).n + 1, Err(_) => final(tok).n == old(tok).n }
        { unimplemented!() }
    }
}
#[cfg(feature = "frontend")]
use crossbeam_channel::{msg, rid, sid};

#[cfg(feature = "frontend")]
pub open spec fn producer_ok(sender: Option<crossbeam_channel::Sender<BddNode>>, receiver: Option<crossbeam_channel::Receiver<BddNode>>, nodes: Seq<BddNode>, sent: nat) -> bool {
    match (sender, receiver) { (Some(s), None) => nodes.len() == sent + 2 && forall|k: nat| k < sent ==> nodes[k as int + 2] == #[trigger] msg(sid(&s), k), _ => true }
}
#[cfg(feature = "frontend")]
impl Bdd {
    // producer-side invariant (a store that only sends): everything after the two constants has been sent, in order
    pub open spec fn producer_inv(&self) -> bool { producer_ok(self.sender, self.receiver, self.nodes@, self.vx_sent@.n) }
    // receiver-side invariant: everything after the two constants is the received prefix, in order
    pub open spec fn mirror_inv(&self) -> bool {
        match self.receiver { Some(r) => self.nodes@.len() == self.vx_recvd@.n + 2 && forall|k: nat| k < self.vx_recvd@.n ==> self.nodes@[k as int + 2] == #[trigger] msg(rid(&r), k), None => true }
    }
    // relay invariant: everything received has been forwarded, in order
    pub open spec fn relay_inv(&self) -> bool {
        match (self.receiver, self.sender) { (Some(r), Some(s)) => self.vx_sent@.n == self.vx_recvd@.n && forall|k: nat| k < self.vx_sent@.n ==> #[trigger] msg(sid(&s), k) == msg(rid(&r), k), _ => true }
    }
    pub open spec fn fresh(&self) -> bool { self.nodes@.len() == 2 && self.vx_sent@.n == 0 && self.vx_recvd@.n == 0 }
}
// mirror lemma (C19): if a producer P and a receiver R hold the two ends of one channel, R's table is P's prefix
#[cfg(feature = "frontend")]
pub proof fn lemma_mirror(p: Bdd, r: Bdd)
    requires p.producer_inv(), r.mirror_inv(), p.sender.is_some(), p.receiver.is_none(), r.receiver.is_some(),
        sid(&p.sender.unwrap()) == rid(&r.receiver.unwrap()), r.vx_recvd@.n <= p.vx_sent@.n,
    ensures r.nodes@.len() == r.vx_recvd@.n + 2, r.nodes@.len() <= p.nodes@.len(),
        forall|i: int| 2 <= i < r.nodes@.len() ==> r.nodes@[i] == p.nodes@[i],
        r.vx_recvd@.n == p.vx_sent@.n ==> r.nodes@.len() == p.nodes@.len(),
{
    assert forall|i: int| 2 <= i < r.nodes@.len() implies r.nodes@[i] == p.nodes@[i] by {
        let k = (i - 2) as nat;
        assert(r.nodes@[k as int + 2] == msg(rid(&r.receiver.unwrap()), k));
        assert(p.nodes@[k as int + 2] == msg(sid(&p.sender.unwrap()), k));
    }
}
// relay chain: what a relay forwards on its sender channel is what it received, message for message
#[cfg(feature = "frontend")]
pub proof fn lemma_relay(m: Bdd, k: nat)
    requires m.relay_inv(), m.mirror_inv(), m.sender.is_some(), m.receiver.is_some(), k < m.vx_sent@.n,
    ensures msg(sid(&m.sender.unwrap()), k) == msg(rid(&m.receiver.unwrap()), k), m.nodes@[k as int + 2] == msg(sid(&m.sender.unwrap()), k),
{
}
#[cfg(feature = "frontend")]
impl Bdd { pub open spec fn chan_new(&self) -> bool { self.fresh() && self.sender.is_none() && self.receiver.is_none() } }
#[cfg(not(feature = "frontend"))]
impl Bdd { pub open spec fn chan_new(&self) -> bool { true } }
