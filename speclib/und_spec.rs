// an entry of an interpretation that is not a truth value (a diagram handle / Term::UND)
pub open spec fn und(t: Term) -> bool { t.0 > 1 }
