// ADF semantics over abstract Boolean-function vectors (sem3): cofactor by an interpretation, consequence operator Gamma,
// fixpoints, least fixpoint, derivation ranks.  Lives inside `mod sp` because it unfolds the closed bf_* functions.
pub open spec fn decided(t: Term) -> bool { t.0 <= 1 }
pub open spec fn cof(f: BF, interp: Seq<Term>, k: int) -> BF
    decreases k
{
    if k <= 0 { f } else if decided(interp[k - 1]) { bf_restrict(cof(f, interp, k - 1), (k - 1) as usize, interp[k - 1].0 == 1) } else { cof(f, interp, k - 1) }
}
// assignment a overridden by the decided entries of interp below k
pub open spec fn ovr(a: Asg, interp: Seq<Term>, k: int) -> Asg {
    |x: usize| if (x as int) < k && (x as int) < interp.len() && decided(interp[x as int]) { interp[x as int].0 == 1 } else { a(x) }
}
pub open spec fn sub_interp(a: Seq<Term>, b: Seq<Term>) -> bool {
    a.len() == b.len() && forall|j: int| 0 <= j < a.len() && decided(#[trigger] a[j]) ==> b[j] == a[j]
}
pub open spec fn cnt(s: Seq<Term>, k: int) -> int
    decreases k
{
    if k <= 0 { 0 } else { cnt(s, k - 1) + if decided(s[k - 1]) { 1int } else { 0int } }
}
pub open spec fn same_pattern(a: Seq<Term>, b: Seq<Term>) -> bool {
    a.len() == b.len() && forall|j: int| 0 <= j < a.len() ==> (decided(#[trigger] a[j]) == decided(b[j])) && (decided(a[j]) ==> a[j] == b[j])
}

pub proof fn lemma_cof_eval(f: BF, interp: Seq<Term>, k: int, a: Asg)
    requires 0 <= k <= interp.len(), interp.len() < usize::MAX,
    ensures cof(f, interp, k)(a) == f(ovr(a, interp, k))
    decreases k
{
    if k <= 0 { assert(ovr(a, interp, k) =~= a); }
    if k > 0 {
        if decided(interp[k - 1]) {
            let b = upd(a, (k - 1) as usize, interp[k - 1].0 == 1);
            assert(bf_restrict(cof(f, interp, k - 1), (k - 1) as usize, interp[k - 1].0 == 1)(a) == cof(f, interp, k - 1)(b));
            lemma_cof_eval(f, interp, k - 1, b);
            assert(ovr(b, interp, k - 1) =~= ovr(a, interp, k));
        } else {
            lemma_cof_eval(f, interp, k - 1, a);
            assert(ovr(a, interp, k - 1) =~= ovr(a, interp, k));
        }
    }
}
pub proof fn lemma_cof_const(c: bool, interp: Seq<Term>, k: int)
    requires 0 <= k <= interp.len(), interp.len() < usize::MAX,
    ensures cof(bf_const(c), interp, k) == bf_const(c)
{
    assert forall|a: Asg| #[trigger] cof(bf_const(c), interp, k)(a) == bf_const(c)(a) by { lemma_cof_eval(bf_const(c), interp, k, a); }
    assert(cof(bf_const(c), interp, k) =~= bf_const(c));
}
pub proof fn lemma_cof_compose(f: BF, a: Seq<Term>, b: Seq<Term>)
    requires sub_interp(a, b), a.len() < usize::MAX,
    ensures cof(cof(f, a, a.len() as int), b, b.len() as int) == cof(f, b, b.len() as int)
{
    let n = a.len() as int;
    assert forall|x: Asg| #[trigger] cof(cof(f, a, n), b, n)(x) == cof(f, b, n)(x) by {
        lemma_cof_eval(cof(f, a, n), b, n, x);
        lemma_cof_eval(f, a, n, ovr(x, b, n));
        lemma_cof_eval(f, b, n, x);
        assert(ovr(ovr(x, b, n), a, n) =~= ovr(x, b, n));
    }
    assert(cof(cof(f, a, n), b, n) =~= cof(f, b, n));
}
pub proof fn lemma_cof_same_pattern(f: BF, a: Seq<Term>, b: Seq<Term>)
    requires same_pattern(a, b), a.len() < usize::MAX,
    ensures cof(f, a, a.len() as int) == cof(f, b, b.len() as int)
{
    let n = a.len() as int;
    assert forall|x: Asg| #[trigger] cof(f, a, n)(x) == cof(f, b, n)(x) by {
        lemma_cof_eval(f, a, n, x);
        lemma_cof_eval(f, b, n, x);
        assert(ovr(x, a, n) =~= ovr(x, b, n));
    }
    assert(cof(f, a, n) =~= cof(f, b, n));
}
pub proof fn lemma_cof_none(f: BF, a: Seq<Term>, k: int)
    requires 0 <= k <= a.len(), forall|j: int| 0 <= j < a.len() ==> !decided(#[trigger] a[j]),
    ensures cof(f, a, k) == f
    decreases k
{ if k > 0 { lemma_cof_none(f, a, k - 1); } }

pub proof fn lemma_cnt_bounds(s: Seq<Term>, k: int)
    requires 0 <= k <= s.len(),
    ensures 0 <= cnt(s, k) <= k
    decreases k
{ if k > 0 { lemma_cnt_bounds(s, k - 1); } }

pub proof fn lemma_cnt_update(s: Seq<Term>, i: int, t: Term, k: int)
    requires 0 <= i < s.len(), 0 <= k <= s.len(),
    ensures cnt(s.update(i, t), k) == cnt(s, k) + if i < k { (if decided(t) { 1int } else { 0int }) - (if decided(s[i]) { 1int } else { 0int }) } else { 0int }
    decreases k
{ if k > 0 { lemma_cnt_update(s, i, t, k - 1); } }

// a ⊑ b and equal counts ⇒ same decided pattern
pub proof fn lemma_cnt_mono(a: Seq<Term>, b: Seq<Term>, k: int)
    requires sub_interp(a, b), 0 <= k <= a.len(),
    ensures cnt(a, k) <= cnt(b, k),
            cnt(a, k) == cnt(b, k) ==> forall|j: int| 0 <= j < k ==> decided(#[trigger] a[j]) == decided(b[j]),
    decreases k
{
    if k > 0 {
        lemma_cnt_mono(a, b, k - 1);
        if decided(a[k - 1]) { assert(b[k - 1] == a[k - 1]); }
    }
}

// ---------------- three-valued semantics over abstract function vectors
pub open spec fn tvo(t: Term) -> Option<bool> { if t.0 == 1 { Some(true) } else if t.0 == 0 { Some(false) } else { None } }
pub open spec fn tvs(r: Seq<Term>) -> Seq<Option<bool>> { Seq::new(r.len(), |i: int| tvo(r[i])) }
pub open spec fn ovrv(a: Asg, v: Seq<Option<bool>>) -> Asg {
    |x: usize| if (x as int) < v.len() && v[x as int].is_some() { v[x as int].unwrap() } else { a(x) }
}
pub open spec fn cofv(f: BF, v: Seq<Option<bool>>) -> BF { |a: Asg| f(ovrv(a, v)) }
pub open spec fn gamma_at(fs: Seq<BF>, v: Seq<Option<bool>>, i: int) -> Option<bool> {
    if cofv(fs[i], v) == bf_const(true) { Some(true) } else if cofv(fs[i], v) == bf_const(false) { Some(false) } else { None }
}
pub open spec fn is_fix(fs: Seq<BF>, v: Seq<Option<bool>>) -> bool {
    v.len() == fs.len() && forall|i: int| 0 <= i < fs.len() ==> #[trigger] v[i] == gamma_at(fs, v, i)
}
pub open spec fn below(v: Seq<Option<bool>>, w: Seq<Option<bool>>) -> bool {
    v.len() == w.len() && forall|i: int| 0 <= i < v.len() && (#[trigger] v[i]).is_some() ==> w[i] == v[i]
}
pub open spec fn is_lfp(fs: Seq<BF>, v: Seq<Option<bool>>) -> bool {
    is_fix(fs, v) && forall|w: Seq<Option<bool>>| #[trigger] is_fix(fs, w) ==> below(v, w)
}
// entries of r decided with rank < k, everything else undecided
pub open spec fn r_below(r: Seq<Term>, rank: Seq<nat>, k: nat) -> Seq<Term> {
    Seq::new(r.len(), |j: int| if decided(r[j]) && rank[j] < k { r[j] } else { Term(2) })
}
pub open spec fn derivable(fs: Seq<BF>, r: Seq<Term>, rank: Seq<nat>) -> bool {
    &&& rank.len() == r.len() && fs.len() == r.len()
    &&& forall|i: int| 0 <= i < r.len() && decided(#[trigger] r[i]) ==> cof(fs[i], r_below(r, rank, rank[i]), r.len() as int) == bf_const(r[i].0 == 1)
}
pub proof fn lemma_const_ne() ensures bf_const(true) != bf_const(false) {
    let a0: Asg = |x: usize| false;
    assert(bf_const(true)(a0) != bf_const(false)(a0));
}
pub proof fn lemma_cof_cofv(f: BF, r: Seq<Term>)
    requires r.len() < usize::MAX,
    ensures cof(f, r, r.len() as int) == cofv(f, tvs(r))
{
    let n = r.len() as int;
    assert forall|a: Asg| #[trigger] cof(f, r, n)(a) == cofv(f, tvs(r))(a) by {
        lemma_cof_eval(f, r, n, a);
        assert(ovr(a, r, n) =~= ovrv(a, tvs(r)));
    }
    assert(cof(f, r, n) =~= cofv(f, tvs(r)));
}
pub proof fn lemma_cofv_compose(f: BF, v: Seq<Option<bool>>, w: Seq<Option<bool>>)
    requires below(v, w),
    ensures cofv(cofv(f, v), w) == cofv(f, w)
{
    assert forall|a: Asg| #[trigger] cofv(cofv(f, v), w)(a) == cofv(f, w)(a) by {
        assert(ovrv(ovrv(a, w), v) =~= ovrv(a, w));
    }
    assert(cofv(cofv(f, v), w) =~= cofv(f, w));
}
pub proof fn lemma_cofv_const(c: bool, w: Seq<Option<bool>>) ensures cofv(bf_const(c), w) == bf_const(c) {
    assert(cofv(bf_const(c), w) =~= bf_const(c));
}
// every derivable decision is shared by every fixpoint (induction on the rank)
pub proof fn lemma_least(fs: Seq<BF>, r: Seq<Term>, rank: Seq<nat>, w: Seq<Option<bool>>, k: nat)
    requires derivable(fs, r, rank), is_fix(fs, w), r.len() < usize::MAX,
    ensures forall|i: int| 0 <= i < r.len() && decided(#[trigger] r[i]) && rank[i] < k ==> w[i] == tvo(r[i]),
    decreases k
{
    if k > 0 {
        lemma_least(fs, r, rank, w, (k - 1) as nat);
        assert forall|i: int| 0 <= i < r.len() && decided(#[trigger] r[i]) && rank[i] < k implies w[i] == tvo(r[i]) by {
            if rank[i] == k - 1 {
                let rb = r_below(r, rank, rank[i]);
                lemma_least(fs, r, rank, w, rank[i]);
                assert(below(tvs(rb), w)) by {
                    assert forall|j: int| 0 <= j < tvs(rb).len() && (#[trigger] tvs(rb)[j]).is_some() implies w[j] == tvs(rb)[j] by {
                        assert(decided(r[j]) && rank[j] < rank[i]);
                    }
                }
                lemma_cof_cofv(fs[i], rb);
                lemma_cofv_compose(fs[i], tvs(rb), w);
                lemma_cofv_const(r[i].0 == 1, w);
                lemma_const_ne();
                assert(cofv(fs[i], w) == bf_const(r[i].0 == 1));
                assert(w[i] == gamma_at(fs, w, i));
            }
        }
    }
}
pub open spec fn max_rank(rank: Seq<nat>, k: int) -> nat
    decreases k
{ if k <= 0 { 0 } else { let m = max_rank(rank, k - 1); if rank[k - 1] > m { rank[k - 1] } else { m } } }
pub proof fn lemma_max_rank(rank: Seq<nat>, k: int, i: int)
    requires 0 <= i < k <= rank.len(),
    ensures rank[i] <= max_rank(rank, k)
    decreases k
{ if i < k - 1 { lemma_max_rank(rank, k - 1, i); } }

pub open spec fn dens(nodes: Seq<BddNode>, r: Seq<Term>) -> Seq<BF> { Seq::new(r.len(), |i: int| den(nodes, r[i].0 as int)) }

// post-1 + canonicity ==> fixpoint;  derivable ==> least
pub proof fn lemma_grounded_is_lfp(nodes: Seq<BddNode>, fs: Seq<BF>, r: Seq<Term>, rank: Seq<nat>)
    requires
        nodes_wf(nodes), nodup(nodes), r.len() < usize::MAX, fs.len() == r.len(),
        forall|i: int| 0 <= i < r.len() ==> (#[trigger] r[i]).0 < nodes.len() && den(nodes, r[i].0 as int) == cof(fs[i], r, r.len() as int),
        derivable(fs, r, rank),
    ensures is_lfp(fs, tvs(r))
{
    let v = tvs(r);
    lemma_const_ne();
    assert forall|i: int| 0 <= i < fs.len() implies #[trigger] v[i] == gamma_at(fs, v, i) by {
        lemma_cof_cofv(fs[i], r);
        let d = den(nodes, r[i].0 as int);
        assert(d == cofv(fs[i], v));
        if r[i].0 >= 2 {
            if d == bf_const(true) { lemma_canon(nodes, r[i].0 as int, 1); }
            if d == bf_const(false) { lemma_canon(nodes, r[i].0 as int, 0); }
        }
    }
    assert(is_fix(fs, v));
    assert forall|w: Seq<Option<bool>>| #[trigger] is_fix(fs, w) implies below(v, w) by {
        let k = max_rank(rank, rank.len() as int) + 1;
        lemma_least(fs, r, rank, w, k);
        assert forall|i: int| 0 <= i < v.len() && (#[trigger] v[i]).is_some() implies w[i] == v[i] by {
            lemma_max_rank(rank, rank.len() as int, i);
            assert(decided(r[i]));
        }
    }
}


// ---- reduct, stable models, composition lemmas (C02 / C03)
pub open spec fn false_part(v: Seq<Term>) -> Seq<Term> { Seq::new(v.len(), |j: int| if v[j].0 == 0 { Term(0) } else { Term(2) }) }
pub open spec fn reduct(fs: Seq<BF>, v: Seq<Term>) -> Seq<BF> { Seq::new(fs.len(), |i: int| cof(fs[i], false_part(v), v.len() as int)) }
// the statement's definition of a stable model, for a vector v read through tvo
pub open spec fn is_stable(fs: Seq<BF>, v: Seq<Term>) -> bool { is_lfp(reduct(fs, v), tvs(v)) }

pub proof fn lemma_lfp_unique(fs: Seq<BF>, v: Seq<Option<bool>>, w: Seq<Option<bool>>)
    requires is_lfp(fs, v), is_lfp(fs, w),
    ensures v == w
{
    assert(below(v, w)); assert(below(w, v));
    assert forall|i: int| 0 <= i < v.len() implies v[i] == w[i] by {
        if v[i].is_some() { } else if w[i].is_some() { }
    }
    assert(v =~= w);
}
pub proof fn lemma_cof_step_false(f: BF, v: Seq<Term>, k: int)
    requires 0 <= k < v.len(),
    ensures cof(f, false_part(v), k + 1) == (if v[k].0 == 0 { bf_restrict(cof(f, false_part(v), k), k as usize, false) } else { cof(f, false_part(v), k) })
{ }


pub proof fn lemma_tvo_gamma(nodes: Seq<BddNode>, fs: Seq<BF>, v: Seq<Term>, i: int, t: Term)
    requires nodes_wf(nodes), nodup(nodes), t.0 < nodes.len(), 0 <= i < fs.len(), v.len() < usize::MAX,
        den(nodes, t.0 as int) == cof(fs[i], v, v.len() as int),
    ensures tvo(t) == gamma_at(fs, tvs(v), i)
{
    lemma_const_ne();
    lemma_cof_cofv(fs[i], v);
    let d = den(nodes, t.0 as int);
    if t.0 >= 2 {
        if d == bf_const(true) { lemma_canon(nodes, t.0 as int, 1); }
        if d == bf_const(false) { lemma_canon(nodes, t.0 as int, 0); }
    }
}


// ---------------- composition lemmas used by C02 / C03 / C10
pub proof fn lemma_fix_refines_lfp(fs: Seq<BF>, g: Seq<Option<bool>>, w: Seq<Option<bool>>)
    requires is_lfp(fs, g), is_fix(fs, w),
    ensures below(g, w)
{ }
pub proof fn lemma_lfp_is_fix(fs: Seq<BF>, g: Seq<Option<bool>>)
    requires is_lfp(fs, g),
    ensures is_fix(fs, g)
{ }
pub open spec fn total(v: Seq<Option<bool>>) -> bool { forall|i: int| 0 <= i < v.len() ==> (#[trigger] v[i]).is_some() }
pub open spec fn asg_of(v: Seq<Option<bool>>) -> Asg { |x: usize| (x as int) < v.len() && v[x as int] == Some(true) }
// a total fixpoint of Gamma is a two-valued model: every condition evaluates to the statement's own value
pub proof fn lemma_total_fix_is_model(fs: Seq<BF>, v: Seq<Option<bool>>, i: int)
    requires is_fix(fs, v), total(v), 0 <= i < fs.len(),
    ensures fs[i](asg_of(v)) == v[i].unwrap()
{
    lemma_const_ne();
    let a = asg_of(v);
    assert(v[i] == gamma_at(fs, v, i));
    assert(ovrv(a, v) =~= a) by {
        assert forall|x: usize| #[trigger] ovrv(a, v)(x) == a(x) by {
            if (x as int) < v.len() { assert(v[x as int].is_some()); }
        }
    }
    assert(cofv(fs[i], v)(a) == fs[i](a));
    if v[i] == Some(true) { assert(cofv(fs[i], v) == bf_const(true)); assert(bf_const(true)(a)); }
    else { assert(v[i] == Some(false)); assert(cofv(fs[i], v) == bf_const(false)); assert(!bf_const(false)(a)); }
}
// stable ==> fixpoint of the *original* Gamma (hence complete, hence a two-valued model)
pub proof fn lemma_reduct_cof(fs: Seq<BF>, v: Seq<Term>, i: int)
    requires 0 <= i < fs.len(), v.len() < usize::MAX, fs.len() == v.len(), forall|j: int| 0 <= j < v.len() ==> decided(#[trigger] v[j]),
    ensures cofv(reduct(fs, v)[i], tvs(v)) == cofv(fs[i], tvs(v))
{
    let n = v.len() as int;
    lemma_cof_cofv(fs[i], false_part(v));
    assert(below(tvs(false_part(v)), tvs(v))) by {
        assert forall|j: int| 0 <= j < n && (#[trigger] tvs(false_part(v))[j]).is_some() implies tvs(v)[j] == tvs(false_part(v))[j] by { }
    }
    lemma_cofv_compose(fs[i], tvs(false_part(v)), tvs(v));
}
pub proof fn lemma_stable_is_fix(fs: Seq<BF>, v: Seq<Term>)
    requires is_stable(fs, v), v.len() < usize::MAX, fs.len() == v.len(), forall|j: int| 0 <= j < v.len() ==> decided(#[trigger] v[j]),
    ensures is_fix(fs, tvs(v))
{
    let r = reduct(fs, v); let tv = tvs(v);
    assert forall|i: int| 0 <= i < fs.len() implies #[trigger] tv[i] == gamma_at(fs, tv, i) by {
        assert(tv[i] == gamma_at(r, tv, i));
        lemma_reduct_cof(fs, v, i);
    }
}

// the filter of the enumerate-and-check stable semantics: candidate v and grounded-of-reduct grd agree on information
pub open spec fn pairs_agree(a: Seq<Term>, b: Seq<Term>) -> bool {
    forall|j: int| 0 <= j < a.len() && j < b.len() ==> tvo(#[trigger] a[j]) == tvo(b[j])
}
pub proof fn lemma_pairs_stable(fs: Seq<BF>, v: Seq<Term>, grd: Seq<Term>)
    requires is_lfp(reduct(fs, v), tvs(grd)), v.len() == grd.len(),
    ensures pairs_agree(v, grd) <==> is_stable(fs, v)
{
    if pairs_agree(v, grd) { assert(tvs(v) =~= tvs(grd)); }
    if is_stable(fs, v) {
        lemma_lfp_unique(reduct(fs, v), tvs(grd), tvs(v));
        assert forall|j: int| 0 <= j < v.len() && j < grd.len() implies tvo(#[trigger] v[j]) == tvo(grd[j]) by { assert(tvs(v)[j] == tvs(grd)[j]); }
    }
}

// ---- the single-formula rewriting used by the two "stable via candidates" variants (C03)
// conjunction over all statements of (condition_i <-> statement_i)
pub open spec fn rep_sem(fs: Seq<BF>, k: int) -> BF
    decreases k
{ if k <= 0 { bf_const(true) } else { bf_and(rep_sem(fs, k - 1), bf_iff(fs[k - 1], bf_var((k - 1) as usize))) } }
// conjunction over the parsed formulae of (statement_ord[j] <-> formula_j)
pub open spec fn rw_sem(ord: Seq<usize>, gs: Seq<BF>, k: int) -> BF
    decreases k
{ if k <= 0 { bf_const(true) } else { bf_and(rw_sem(ord, gs, k - 1), bf_iff(bf_var(ord[k - 1]), gs[k - 1])) } }
pub proof fn lemma_rep_sem(fs: Seq<BF>, k: int, a: Asg)
    requires 0 <= k <= fs.len(), k < usize::MAX,
    ensures rep_sem(fs, k)(a) <==> (forall|i: int| 0 <= i < k ==> #[trigger] fs[i](a) == a(i as usize))
    decreases k
{ if k > 0 { lemma_rep_sem(fs, k - 1, a); } }
pub proof fn lemma_rw_sem(ord: Seq<usize>, gs: Seq<BF>, k: int, a: Asg)
    requires 0 <= k <= gs.len(), k <= ord.len(),
    ensures rw_sem(ord, gs, k)(a) <==> (forall|j: int| 0 <= j < k ==> #[trigger] gs[j](a) == a(ord[j]))
    decreases k
{ if k > 0 { lemma_rw_sem(ord, gs, k - 1, a); } }
// every model of the per-statement rewriting is a model of the per-formula rewriting
pub proof fn lemma_rw_weaker(fs: Seq<BF>, ord: Seq<usize>, gs: Seq<BF>, a: Asg)
    requires fs.len() < usize::MAX, ord.len() == gs.len(), forall|j: int| 0 <= j < ord.len() ==> (#[trigger] ord[j]) < fs.len() && gs[j] == fs[ord[j] as int],
        rep_sem(fs, fs.len() as int)(a),
    ensures rw_sem(ord, gs, gs.len() as int)(a)
{
    lemma_rep_sem(fs, fs.len() as int, a); lemma_rw_sem(ord, gs, gs.len() as int, a);
    assert forall|j: int| 0 <= j < gs.len() implies #[trigger] gs[j](a) == a(ord[j]) by { assert(fs[ord[j] as int](a) == a(ord[j] as int as usize)); }
}
// a stable model is a two-valued model, hence a model of the rewriting: the candidate set loses no stable model
pub proof fn lemma_stable_in_rep(fs: Seq<BF>, v: Seq<Term>)
    requires is_stable(fs, v), v.len() < usize::MAX, fs.len() == v.len(), forall|j: int| 0 <= j < v.len() ==> decided(#[trigger] v[j]),
    ensures rep_sem(fs, fs.len() as int)(asg_of(tvs(v)))
{
    lemma_stable_is_fix(fs, v);
    let tv = tvs(v); let a = asg_of(tv);
    assert(total(tv)) by { assert forall|i: int| 0 <= i < tv.len() implies (#[trigger] tv[i]).is_some() by { assert(decided(v[i])); } }
    lemma_rep_sem(fs, fs.len() as int, a);
    assert forall|i: int| 0 <= i < fs.len() implies #[trigger] fs[i](a) == a(i as usize) by { lemma_total_fix_is_model(fs, tv, i); }
}
pub proof fn lemma_const_eval() ensures forall|c: bool, a: Asg| #[trigger] bf_const(c)(a) == c { }
// ---- support bound: a function that looks only at the variables below n (C05 two-valued mode, established by C09's from_parser)
pub open spec fn agree_below(a: Asg, b: Asg, n: int) -> bool { forall|x: usize| (x as int) < n ==> #[trigger] a(x) == b(x) }
pub open spec fn dep_below(f: BF, n: int) -> bool { forall|a: Asg, b: Asg| #[trigger] agree_below(a, b, n) ==> f(a) == f(b) }
pub open spec fn all_dep_below(fs: Seq<BF>) -> bool { forall|i: int| 0 <= i < fs.len() ==> dep_below(#[trigger] fs[i], fs.len() as int) }
pub proof fn lemma_dep_const(c: bool, n: int) ensures dep_below(bf_const(c), n) { }
pub proof fn lemma_dep_var(v: usize, n: int) requires (v as int) < n, ensures dep_below(bf_var(v), n)
{ assert forall|a: Asg, b: Asg| #[trigger] agree_below(a, b, n) implies bf_var(v)(a) == bf_var(v)(b) by { assert(a(v) == b(v)); } }
pub proof fn lemma_dep_not(f: BF, n: int) requires dep_below(f, n), ensures dep_below(bf_not(f), n) { }
pub proof fn lemma_dep_bin(f: BF, g: BF, n: int)
    requires dep_below(f, n), dep_below(g, n),
    ensures dep_below(bf_and(f, g), n), dep_below(bf_or(f, g), n), dep_below(bf_imp(f, g), n), dep_below(bf_iff(f, g), n), dep_below(bf_xor(f, g), n)
{ }
// ---- hybrid back-end (C01 / C02): the pre-grounded ADF - every condition restricted by the grounded interpretation g -
// has the same least fixpoint and the same fixpoints as the original ADF
pub open spec fn pre_grounded(fs: Seq<BF>, g: Seq<Option<bool>>) -> Seq<BF> { Seq::new(fs.len(), |i: int| cofv(fs[i], g)) }
pub proof fn lemma_below_refl(v: Seq<Option<bool>>) ensures below(v, v) { }
// a statement decided by g has a constant condition in the pre-grounded ADF: every fixpoint there carries g
pub proof fn lemma_pre_grounded_above(fs: Seq<BF>, g: Seq<Option<bool>>, w: Seq<Option<bool>>)
    requires is_fix(fs, g), is_fix(pre_grounded(fs, g), w),
    ensures below(g, w)
{
    let fs2 = pre_grounded(fs, g);
    lemma_const_ne();
    assert forall|i: int| 0 <= i < g.len() && (#[trigger] g[i]).is_some() implies w[i] == g[i] by {
        assert(g[i] == gamma_at(fs, g, i));
        let b = g[i].unwrap();
        assert(cofv(fs[i], g) == bf_const(b));
        assert(fs2[i] == bf_const(b));
        lemma_cofv_const(b, w);
        assert(w[i] == gamma_at(fs2, w, i));
    }
}
// above g the two operators coincide
pub proof fn lemma_pre_grounded_gamma(fs: Seq<BF>, g: Seq<Option<bool>>, w: Seq<Option<bool>>, i: int)
    requires below(g, w), 0 <= i < fs.len(),
    ensures gamma_at(pre_grounded(fs, g), w, i) == gamma_at(fs, w, i)
{ lemma_cofv_compose(fs[i], g, w); }
pub proof fn lemma_hybrid_fix(fs: Seq<BF>, g: Seq<Option<bool>>, w: Seq<Option<bool>>)
    requires is_lfp(fs, g),
    ensures is_fix(pre_grounded(fs, g), w) == is_fix(fs, w)
{
    let fs2 = pre_grounded(fs, g);
    if is_fix(fs2, w) {
        lemma_pre_grounded_above(fs, g, w);
        assert forall|i: int| 0 <= i < fs.len() implies #[trigger] w[i] == gamma_at(fs, w, i) by { lemma_pre_grounded_gamma(fs, g, w, i); assert(w[i] == gamma_at(fs2, w, i)); }
    }
    if is_fix(fs, w) {
        assert(below(g, w));
        assert forall|i: int| 0 <= i < fs2.len() implies #[trigger] w[i] == gamma_at(fs2, w, i) by { lemma_pre_grounded_gamma(fs, g, w, i); assert(w[i] == gamma_at(fs, w, i)); }
    }
}
pub proof fn lemma_hybrid_lfp(fs: Seq<BF>, g: Seq<Option<bool>>)
    requires is_lfp(fs, g),
    ensures is_lfp(pre_grounded(fs, g), g)
{
    let fs2 = pre_grounded(fs, g);
    lemma_hybrid_fix(fs, g, g);
    assert forall|w: Seq<Option<bool>>| #[trigger] is_fix(fs2, w) implies below(g, w) by { lemma_hybrid_fix(fs, g, w); }
}
// ---- hybrid back-end with pre-grounding (C03): the pre-grounded ADF has the same stable models
// a over b: a's decided entries win
pub open spec fn merge_tv(a: Seq<Option<bool>>, b: Seq<Option<bool>>) -> Seq<Option<bool>> { Seq::new(b.len(), |j: int| if j < a.len() && a[j].is_some() { a[j] } else { b[j] }) }
pub proof fn lemma_cofv_merge(f: BF, a: Seq<Option<bool>>, b: Seq<Option<bool>>)
    requires a.len() == b.len(),
    ensures cofv(cofv(f, a), b) == cofv(f, merge_tv(a, b))
{
    assert forall|x: Asg| #[trigger] cofv(cofv(f, a), b)(x) == cofv(f, merge_tv(a, b))(x) by { assert(ovrv(ovrv(x, b), a) =~= ovrv(x, merge_tv(a, b))); }
    assert(cofv(cofv(f, a), b) =~= cofv(f, merge_tv(a, b)));
}
pub proof fn lemma_cofv_commute(f: BF, a: Seq<Option<bool>>, b: Seq<Option<bool>>, top: Seq<Option<bool>>)
    requires below(a, top), below(b, top),
    ensures cofv(cofv(f, a), b) == cofv(cofv(f, b), a)
{
    assert forall|x: Asg| #[trigger] cofv(cofv(f, a), b)(x) == cofv(cofv(f, b), a)(x) by { assert(ovrv(ovrv(x, b), a) =~= ovrv(ovrv(x, a), b)); }
    assert(cofv(cofv(f, a), b) =~= cofv(cofv(f, b), a));
}
pub open spec fn fpart(v: Seq<Term>) -> Seq<Option<bool>> { tvs(false_part(v)) }
// every fixpoint of the reduct's operator carries the grounded interpretation (induction on the derivation rank)
pub proof fn lemma_reduct_above_grounded(fs: Seq<BF>, gr: Seq<Term>, rank: Seq<nat>, v: Seq<Term>, u: Seq<Option<bool>>, k: nat)
    requires derivable(fs, gr, rank), gr.len() < usize::MAX, v.len() == gr.len(), below(tvs(gr), tvs(v)), is_fix(reduct(fs, v), u),
    ensures forall|i: int| 0 <= i < gr.len() && decided(#[trigger] gr[i]) && rank[i] < k ==> u[i] == tvo(gr[i]),
    decreases k
{
    if k > 0 {
        lemma_reduct_above_grounded(fs, gr, rank, v, u, (k - 1) as nat);
        let rd = reduct(fs, v); let fp = fpart(v);
        assert forall|i: int| 0 <= i < gr.len() && decided(#[trigger] gr[i]) && rank[i] < k implies u[i] == tvo(gr[i]) by {
            if rank[i] == k - 1 {
                let rb = r_below(gr, rank, rank[i]);
                lemma_reduct_above_grounded(fs, gr, rank, v, u, rank[i]);
                let m = merge_tv(fp, u);
                assert(below(tvs(rb), m)) by {
                    assert forall|j: int| 0 <= j < tvs(rb).len() && (#[trigger] tvs(rb)[j]).is_some() implies m[j] == tvs(rb)[j] by {
                        assert(decided(gr[j]) && rank[j] < rank[i]);
                        assert(u[j] == tvo(gr[j]));
                        assert(tvs(gr)[j].is_some()); assert(tvs(v)[j] == tvs(gr)[j]);
                        if fp[j].is_some() { assert(v[j].0 == 0); }
                    }
                }
                lemma_cof_cofv(fs[i], false_part(v));
                assert(rd[i] == cofv(fs[i], fp));
                lemma_cofv_merge(fs[i], fp, u);
                lemma_cof_cofv(fs[i], rb);
                lemma_cofv_compose(fs[i], tvs(rb), m);
                lemma_cofv_const(gr[i].0 == 1, m);
                lemma_const_ne();
                assert(cofv(rd[i], u) == bf_const(gr[i].0 == 1));
                assert(u[i] == gamma_at(rd, u, i));
            }
        }
    }
}
pub proof fn lemma_hybrid_stable(fs: Seq<BF>, gr: Seq<Term>, rank: Seq<nat>, v: Seq<Term>)
    requires is_lfp(fs, tvs(gr)), derivable(fs, gr, rank), gr.len() < usize::MAX, v.len() == gr.len(), fs.len() == gr.len(),
        forall|j: int| 0 <= j < v.len() ==> decided(#[trigger] v[j]),
    ensures is_stable(pre_grounded(fs, tvs(gr)), v) == is_stable(fs, v)
{
    let g = tvs(gr); let fs2 = pre_grounded(fs, g);
    let rd = reduct(fs, v); let rd2 = reduct(fs2, v);
    let tv = tvs(v); let fp = fpart(v);
    let n = v.len() as int;
    lemma_const_ne();
    assert(below(fp, tv)) by { assert forall|j: int| 0 <= j < n && (#[trigger] fp[j]).is_some() implies tv[j] == fp[j] by { } }
    if is_stable(fs2, v) || is_stable(fs, v) {
        // the grounded interpretation is below v
        assert(below(g, tv)) by {
            if is_stable(fs, v) { lemma_stable_is_fix(fs, v); }
            else { lemma_stable_is_fix(fs2, v); lemma_pre_grounded_above(fs, g, tv); }
        }
        // the reduct of the pre-grounded ADF is the pre-grounded reduct
        assert forall|i: int| 0 <= i < n implies #[trigger] rd2[i] == cofv(rd[i], g) by {
            lemma_cof_cofv(fs2[i], false_part(v)); lemma_cof_cofv(fs[i], false_part(v));
            lemma_cofv_commute(fs[i], g, fp, tv);
        }
        // a statement decided by g has a constant condition in rd2
        assert forall|i: int| 0 <= i < n && (#[trigger] g[i]).is_some() implies rd2[i] == bf_const(g[i].unwrap()) by {
            assert(g[i] == gamma_at(fs, g, i));
            lemma_cof_cofv(fs2[i], false_part(v));
            lemma_cofv_const(g[i].unwrap(), fp);
        }
        // above g the two operators coincide
        assert forall|w: Seq<Option<bool>>, i: int| below(g, w) && 0 <= i < n implies #[trigger] gamma_at(rd2, w, i) == gamma_at(rd, w, i) by { lemma_cofv_compose(rd[i], g, w); }
        // every fixpoint of either operator is above g
        assert forall|w: Seq<Option<bool>>| #[trigger] is_fix(rd2, w) implies below(g, w) by {
            assert forall|i: int| 0 <= i < g.len() && (#[trigger] g[i]).is_some() implies w[i] == g[i] by { lemma_cofv_const(g[i].unwrap(), w); assert(w[i] == gamma_at(rd2, w, i)); }
        }
        assert forall|w: Seq<Option<bool>>| #[trigger] is_fix(rd, w) implies below(g, w) by {
            let mk = max_rank(rank, rank.len() as int) + 1;
            lemma_reduct_above_grounded(fs, gr, rank, v, w, mk);
            assert forall|i: int| 0 <= i < g.len() && (#[trigger] g[i]).is_some() implies w[i] == g[i] by { lemma_max_rank(rank, rank.len() as int, i); assert(decided(gr[i])); }
        }
        // hence the same fixpoints, hence the same least fixpoint
        assert forall|w: Seq<Option<bool>>| #[trigger] is_fix(rd2, w) == is_fix(rd, w) by {
            if is_fix(rd2, w) { assert forall|i: int| 0 <= i < rd.len() implies #[trigger] w[i] == gamma_at(rd, w, i) by { assert(w[i] == gamma_at(rd2, w, i)); } }
            if is_fix(rd, w) { assert forall|i: int| 0 <= i < rd2.len() implies #[trigger] w[i] == gamma_at(rd2, w, i) by { assert(w[i] == gamma_at(rd, w, i)); } }
        }
        if is_lfp(rd, tv) { assert(is_fix(rd2, tv)); assert forall|w: Seq<Option<bool>>| #[trigger] is_fix(rd2, w) implies below(tv, w) by { assert(is_fix(rd, w)); } }
        if is_lfp(rd2, tv) { assert(is_fix(rd, tv)); assert forall|w: Seq<Option<bool>>| #[trigger] is_fix(rd, w) implies below(tv, w) by { assert(is_fix(rd2, w)); } }
    }
}
// a function that looks only at the variables below n does not depend on a variable >= n
pub proof fn lemma_dep_below_indep(f: BF, n: int, v: usize)
    requires dep_below(f, n), (v as int) >= n,
    ensures bf_indep(f, v)
{
    assert forall|a: Asg, b: bool| #[trigger] f(upd(a, v, b)) == f(a) by { assert(agree_below(upd(a, v, b), a, n)); }
}
pub proof fn lemma_dep_restrict(f: BF, n: int, v: usize, b: bool)
    requires dep_below(f, n),
    ensures dep_below(bf_restrict(f, v, b), n)
{
    assert forall|x: Asg, y: Asg| #[trigger] agree_below(x, y, n) implies bf_restrict(f, v, b)(x) == bf_restrict(f, v, b)(y) by { assert(agree_below(upd(x, v, b), upd(y, v, b), n)); }
}
pub proof fn lemma_dep_cof(f: BF, n: int, c: Seq<Term>, k: int)
    requires dep_below(f, n), 0 <= k <= c.len(), c.len() < usize::MAX,
    ensures dep_below(cof(f, c, k), n)
    decreases k
{
    if k > 0 { lemma_dep_cof(f, n, c, k - 1); if decided(c[k - 1]) { lemma_dep_restrict(cof(f, c, k - 1), n, (k - 1) as usize, c[k - 1].0 == 1); } }
}
pub proof fn law_restrict_eval(f: BF, v: usize, b: bool, a: Asg) ensures bf_restrict(f, v, b)(a) == f(upd(a, v, b)) { }
// restricting by the value the assignment already has changes nothing at that assignment
pub proof fn law_restrict_same(f: BF, v: usize, a: Asg) ensures bf_restrict(f, v, a(v))(a) == f(a) { assert(upd(a, v, a(v)) =~= a); }
pub proof fn lemma_indep_eval(f: BF, v: usize, a: Asg)
    requires bf_indep(f, v),
    ensures f(upd(a, v, true)) == f(upd(a, v, false))
{ assert(f(upd(a, v, true)) == f(a)); assert(f(upd(a, v, false)) == f(a)); }
