// C13: path cubes (Bdd::interpretations).  A cube is a pair (negative, positive) of variable lists
#[verifier::external_body]
fn __o_to_vec(s: &[Var]) -> (r: Vec<Var>) ensures r@ == s@ { s.to_vec() }
#[verifier::external_body]
fn __o_concat2(a: &[Var], b: &[Var]) -> (r: Vec<Var>) ensures r@ == a@ + b@ { [a, b].concat() }
pub open spec fn cube_sat(neg: Seq<Var>, pos: Seq<Var>, a: Asg) -> bool {
    (forall|i: int| 0 <= i < neg.len() ==> !a((#[trigger] neg[i]).0)) && (forall|i: int| 0 <= i < pos.len() ==> a((#[trigger] pos[i]).0))
}
pub open spec fn lits_ok(nodes: Seq<BddNode>, tree: int, prefix: Seq<Var>, lits: Seq<Var>) -> bool {
    forall|i: int| 0 <= i < lits.len() ==> prefix.contains(#[trigger] lits[i]) || supp(nodes, tree).contains(lits[i])
}
// the literals on the goal variable agree with the goal value (a path that contradicts the goal at the goal variable is never taken)
pub open spec fn glit_ok(goal: bool, goal_var: Var, neg: Seq<Var>, pos: Seq<Var>) -> bool {
    (goal ==> !neg.contains(goal_var)) && (!goal ==> !pos.contains(goal_var))
}
pub open spec fn cubes_ok(nodes: Seq<BddNode>, tree: int, goal: bool, goal_var: Var, neg: Seq<Var>, pos: Seq<Var>, r: Seq<(Vec<Var>, Vec<Var>)>) -> bool {
    // every cube refines the prefix
    &&& forall|k: int| 0 <= k < r.len() ==> forall|a: Asg| #[trigger] cube_sat((#[trigger] r[k]).0@, r[k].1@, a) ==> cube_sat(neg, pos, a)
    // pairwise disjoint
    &&& forall|k1: int, k2: int, a: Asg| 0 <= k1 < k2 < r.len() ==> !(#[trigger] cube_sat(r[k1].0@, r[k1].1@, a) && #[trigger] cube_sat(r[k2].0@, r[k2].1@, a))
    // every literal of a cube comes from the prefix or is a variable the diagram depends on (a variable on the path)
    &&& forall|k: int| 0 <= k < r.len() ==> lits_ok(nodes, tree, neg, (#[trigger] r[k]).0@) && lits_ok(nodes, tree, pos, r[k].1@)
    // no cube contradicts the goal at the goal variable (given that the prefix does not)
    &&& glit_ok(goal, goal_var, neg, pos) ==> forall|k: int| 0 <= k < r.len() ==> glit_ok(goal, goal_var, (#[trigger] r[k]).0@, r[k].1@)
    // where the goal variable has the goal value (and the prefix holds): covered  <==>  the diagram evaluates to the goal
    &&& forall|a: Asg| a(goal_var.0) == goal && #[trigger] cube_sat(neg, pos, a) ==> ((exists|k: int| 0 <= k < r.len() && cube_sat(r[k].0@, r[k].1@, a)) <==> den(nodes, tree)(a) == goal)
}
// the cube list of a terminal child: the prefix itself if the terminal is the goal value, nothing otherwise
pub proof fn lemma_cubes_term(nodes: Seq<BddNode>, t: int, goal: bool, gv: Var, neg: Seq<Var>, pos: Seq<Var>, r: Seq<(Vec<Var>, Vec<Var>)>)
    requires 0 <= t <= 1, if (t == 1) == goal { r.len() == 1 && r[0].0@ =~= neg && r[0].1@ =~= pos } else { r.len() == 0 },
    ensures cubes_ok(nodes, t, goal, gv, neg, pos, r)
{
    assert forall|k: int| 0 <= k < r.len() implies lits_ok(nodes, t, neg, (#[trigger] r[k]).0@) && lits_ok(nodes, t, pos, r[k].1@) by {
        assert forall|i: int| 0 <= i < r[k].0@.len() implies neg.contains(#[trigger] r[k].0@[i]) by { assert(neg[i] == r[k].0@[i]); }
        assert forall|i: int| 0 <= i < r[k].1@.len() implies pos.contains(#[trigger] r[k].1@[i]) by { assert(pos[i] == r[k].1@[i]); }
    }
    if glit_ok(goal, gv, neg, pos) {
        assert forall|k: int| 0 <= k < r.len() implies glit_ok(goal, gv, (#[trigger] r[k]).0@, r[k].1@) by { assert(r[k].0@ == neg && r[k].1@ == pos); }
    }
    assert forall|a: Asg| a(gv.0) == goal && #[trigger] cube_sat(neg, pos, a) implies ((exists|k: int| 0 <= k < r.len() && cube_sat(r[k].0@, r[k].1@, a)) <==> den(nodes, t)(a) == goal) by {
        lemma_den_term_eval(nodes, t, a);
        if (t == 1) == goal { assert(cube_sat(r[0].0@, r[0].1@, a)); }
    }
}
pub open spec fn no_cubes(r: Seq<(Vec<Var>, Vec<Var>)>) -> bool { r.len() == 0 }
// the cubes of an inner node: those of the high child under (neg, pos + var) followed by those of the low child under
// (neg + var, pos); a child is skipped exactly when the node's variable is the goal variable and the child contradicts the goal
pub proof fn lemma_cubes_node(nodes: Seq<BddNode>, t: int, goal: bool, gv: Var, neg: Seq<Var>, pos: Seq<Var>, rh: Seq<(Vec<Var>, Vec<Var>)>, rl: Seq<(Vec<Var>, Vec<Var>)>)
    requires nodes_wf(nodes), 2 <= t < nodes.len(),
        if gv != nodes[t].var || goal { cubes_ok(nodes, nodes[t].hi.0 as int, goal, gv, neg, pos.push(nodes[t].var), rh) } else { no_cubes(rh) },
        if gv != nodes[t].var || !goal { cubes_ok(nodes, nodes[t].lo.0 as int, goal, gv, neg.push(nodes[t].var), pos, rl) } else { no_cubes(rl) },
    ensures cubes_ok(nodes, t, goal, gv, neg, pos, rh + rl)
{
    let v = nodes[t].var;
    let r = rh + rl;
    let nh = rh.len() as int;
    // a cube of the high part forces v true, one of the low part forces v false
    assert forall|k: int, a: Asg| 0 <= k < rh.len() && #[trigger] cube_sat(rh[k].0@, rh[k].1@, a) implies a(v.0) && cube_sat(neg, pos, a) by {
        assert(cube_sat(neg, pos.push(v), a));
        assert(pos.push(v)[pos.len() as int] == v);
        assert forall|i: int| 0 <= i < pos.len() implies a((#[trigger] pos[i]).0) by { assert(pos.push(v)[i] == pos[i]); }
    }
    assert forall|k: int, a: Asg| 0 <= k < rl.len() && #[trigger] cube_sat(rl[k].0@, rl[k].1@, a) implies !a(v.0) && cube_sat(neg, pos, a) by {
        assert(cube_sat(neg.push(v), pos, a));
        assert(neg.push(v)[neg.len() as int] == v);
        assert forall|i: int| 0 <= i < neg.len() implies !a((#[trigger] neg[i]).0) by { assert(neg.push(v)[i] == neg[i]); }
    }
    assert forall|k: int| 0 <= k < r.len() implies forall|a: Asg| #[trigger] cube_sat((#[trigger] r[k]).0@, r[k].1@, a) ==> cube_sat(neg, pos, a) by {
        if k < nh { assert(r[k] == rh[k]); } else { assert(r[k] == rl[k - nh]); }
    }
    assert(guard(nodes, t)) by { assert(inner_ok(nodes, t)); }
    assert(supp(nodes, t).contains(v));
    assert forall|k: int| 0 <= k < r.len() implies lits_ok(nodes, t, neg, (#[trigger] r[k]).0@) && lits_ok(nodes, t, pos, r[k].1@) by {
        let hi = nodes[t].hi.0 as int; let lo = nodes[t].lo.0 as int;
        if k < nh {
            assert(r[k] == rh[k]);
            assert(lits_ok(nodes, hi, neg, rh[k].0@) && lits_ok(nodes, hi, pos.push(v), rh[k].1@));
            assert forall|i: int| 0 <= i < r[k].0@.len() implies neg.contains(#[trigger] r[k].0@[i]) || supp(nodes, t).contains(r[k].0@[i]) by { }
            assert forall|i: int| 0 <= i < r[k].1@.len() implies pos.contains(#[trigger] r[k].1@[i]) || supp(nodes, t).contains(r[k].1@[i]) by {
                let x = r[k].1@[i];
                if pos.push(v).contains(x) { let j = choose|j: int| 0 <= j < pos.push(v).len() && pos.push(v)[j] == x; if j < pos.len() { assert(pos[j] == x); } }
            }
        } else {
            assert(r[k] == rl[k - nh]);
            assert(lits_ok(nodes, lo, neg.push(v), rl[k - nh].0@) && lits_ok(nodes, lo, pos, rl[k - nh].1@));
            assert forall|i: int| 0 <= i < r[k].1@.len() implies pos.contains(#[trigger] r[k].1@[i]) || supp(nodes, t).contains(r[k].1@[i]) by { }
            assert forall|i: int| 0 <= i < r[k].0@.len() implies neg.contains(#[trigger] r[k].0@[i]) || supp(nodes, t).contains(r[k].0@[i]) by {
                let x = r[k].0@[i];
                if neg.push(v).contains(x) { let j = choose|j: int| 0 <= j < neg.push(v).len() && neg.push(v)[j] == x; if j < neg.len() { assert(neg[j] == x); } }
            }
        }
    }
    if glit_ok(goal, gv, neg, pos) {
        assert forall|k: int| 0 <= k < r.len() implies glit_ok(goal, gv, (#[trigger] r[k]).0@, r[k].1@) by {
            if k < nh {
                assert(r[k] == rh[k]);
                assert(gv != v || goal);
                assert(glit_ok(goal, gv, neg, pos.push(v))) by {
                    if !goal && pos.push(v).contains(gv) { let j = choose|j: int| 0 <= j < pos.push(v).len() && pos.push(v)[j] == gv; if j < pos.len() { assert(pos[j] == gv); } }
                }
            } else {
                assert(r[k] == rl[k - nh]);
                assert(gv != v || !goal);
                assert(glit_ok(goal, gv, neg.push(v), pos)) by {
                    if goal && neg.push(v).contains(gv) { let j = choose|j: int| 0 <= j < neg.push(v).len() && neg.push(v)[j] == gv; if j < neg.len() { assert(neg[j] == gv); } }
                }
            }
        }
    }
    assert forall|k1: int, k2: int, a: Asg| 0 <= k1 < k2 < r.len() implies !(#[trigger] cube_sat(r[k1].0@, r[k1].1@, a) && #[trigger] cube_sat(r[k2].0@, r[k2].1@, a)) by {
        if k1 < nh { assert(r[k1] == rh[k1]); } else { assert(r[k1] == rl[k1 - nh]); }
        if k2 < nh { assert(r[k2] == rh[k2]); } else { assert(r[k2] == rl[k2 - nh]); }
    }
    assert forall|a: Asg| a(gv.0) == goal && #[trigger] cube_sat(neg, pos, a) implies ((exists|k: int| 0 <= k < r.len() && cube_sat(r[k].0@, r[k].1@, a)) <==> den(nodes, t)(a) == goal) by {
        lemma_den_eval(nodes, t, a);
        if a(v.0) {
            assert(cube_sat(neg, pos.push(v), a)) by { assert forall|i: int| 0 <= i < pos.push(v).len() implies a((#[trigger] pos.push(v)[i]).0) by { if i < pos.len() { assert(pos.push(v)[i] == pos[i]); } } }
            assert(gv != v || goal);
            if exists|k: int| 0 <= k < rh.len() && cube_sat(rh[k].0@, rh[k].1@, a) { let k = choose|k: int| 0 <= k < rh.len() && cube_sat(rh[k].0@, rh[k].1@, a); assert(r[k] == rh[k]); }
            if exists|k: int| 0 <= k < r.len() && cube_sat(r[k].0@, r[k].1@, a) {
                let k = choose|k: int| 0 <= k < r.len() && cube_sat(r[k].0@, r[k].1@, a);
                if k < nh { assert(r[k] == rh[k]); } else { assert(r[k] == rl[k - nh]); assert(cube_sat(rl[k - nh].0@, rl[k - nh].1@, a)); }
            }
        } else {
            assert(cube_sat(neg.push(v), pos, a)) by { assert forall|i: int| 0 <= i < neg.push(v).len() implies !a((#[trigger] neg.push(v)[i]).0) by { if i < neg.len() { assert(neg.push(v)[i] == neg[i]); } } }
            assert(gv != v || !goal);
            if exists|k: int| 0 <= k < rl.len() && cube_sat(rl[k].0@, rl[k].1@, a) { let k = choose|k: int| 0 <= k < rl.len() && cube_sat(rl[k].0@, rl[k].1@, a); assert(r[nh + k] == rl[k]); }
            if exists|k: int| 0 <= k < r.len() && cube_sat(r[k].0@, r[k].1@, a) {
                let k = choose|k: int| 0 <= k < r.len() && cube_sat(r[k].0@, r[k].1@, a);
                if k < nh { assert(r[k] == rh[k]); assert(cube_sat(rh[k].0@, rh[k].1@, a)); } else { assert(r[k] == rl[k - nh]); }
            }
        }
    }
}
