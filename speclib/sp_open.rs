pub assume_specification<T: Ord> [core::cmp::min::<T>] (a: T, b: T) -> (r: T)
    ensures T::obeys_cmp_spec() ==> r == (if a.cmp_spec(&b) == std::cmp::Ordering::Greater { b } else { a });


impl PartialOrdSpecImpl for Var {
    open spec fn obeys_partial_cmp_spec() -> bool { true }
    open spec fn partial_cmp_spec(&self, other: &Var) -> Option<Ordering> {
        if self.0 < other.0 { Some(Ordering::Less) } else if self.0 == other.0 { Some(Ordering::Equal) } else { Some(Ordering::Greater) }
    }
}

impl vstd::std_specs::convert::FromSpecImpl<bool> for Term {
    open spec fn obeys_from_spec() -> bool { true }
    open spec fn from_spec(v: bool) -> Self { if v { Term(1) } else { Term(0) } }
}
impl vstd::std_specs::convert::FromSpecImpl<usize> for Var {
    open spec fn obeys_from_spec() -> bool { true }
    open spec fn from_spec(v: usize) -> Self { Var(v) }
}
impl vstd::std_specs::convert::FromSpecImpl<(usize, usize)> for ModelCounts {
    open spec fn obeys_from_spec() -> bool { true }
    open spec fn from_spec(tuple: (usize, usize)) -> Self { ModelCounts { cmodels: tuple.0, models: tuple.1 } }
}

#[verifier::external_body]
fn __o_min_usize(a: usize, b: usize) -> (r: usize) ensures r == (if a <= b { a } else { b }) { a.min(b) }


pub mod sp {
use super::*;
use vstd::arithmetic::power2::*;
pub type Asg = spec_fn(usize) -> bool;
pub type BF = spec_fn(Asg) -> bool;

pub open spec fn upd(a: Asg, v: usize, b: bool) -> Asg { |x: usize| if x == v { b } else { a(x) } }
pub closed spec fn bf_const(b: bool) -> BF { |a: Asg| b }
pub closed spec fn bf_node(v: usize, h: BF, l: BF) -> BF { |a: Asg| if a(v) { h(a) } else { l(a) } }
pub closed spec fn bf_restrict(f: BF, v: usize, b: bool) -> BF { |a: Asg| f(upd(a, v, b)) }
pub closed spec fn bf_ite(f: BF, g: BF, h: BF) -> BF { |a: Asg| if f(a) { g(a) } else { h(a) } }
pub closed spec fn bf_indep(f: BF, v: usize) -> bool { forall|a: Asg, b: bool| #[trigger] f(upd(a, v, b)) == f(a) }

pub open spec fn is_bot_node(n: BddNode) -> bool { n.var.0 == usize::MAX - 1 && n.lo.0 == 0 && n.hi.0 == 0 }
pub open spec fn is_top_node(n: BddNode) -> bool { n.var.0 == usize::MAX && n.lo.0 == 1 && n.hi.0 == 1 }
pub open spec fn inner_ok(nodes: Seq<BddNode>, i: int) -> bool {
    let n = nodes[i];
    &&& n.var.0 < usize::MAX - 1
    &&& n.lo.0 < i && n.hi.0 < i
    &&& n.lo != n.hi
    &&& n.var.0 < nodes[n.lo.0 as int].var.0
    &&& n.var.0 < nodes[n.hi.0 as int].var.0
}
pub open spec fn nodes_wf(nodes: Seq<BddNode>) -> bool {
    &&& nodes.len() >= 2
    &&& is_bot_node(nodes[0]) && is_top_node(nodes[1])
    &&& forall|i: int| 2 <= i < nodes.len() ==> #[trigger] inner_ok(nodes, i)
}
pub open spec fn den(nodes: Seq<BddNode>, t: int) -> BF
    decreases t
{
    if t <= 0 { bf_const(false) } else if t == 1 { bf_const(true) }
    else if t < nodes.len() && nodes[t].lo.0 < t && nodes[t].hi.0 < t {
        bf_node(nodes[t].var.0, den(nodes, nodes[t].hi.0 as int), den(nodes, nodes[t].lo.0 as int))
    } else { bf_const(false) }
}
pub open spec fn ext(o: Seq<BddNode>, n: Seq<BddNode>) -> bool {
    o.len() <= n.len() && forall|k: int| 0 <= k < o.len() ==> n[k] == o[k]
}
pub open spec fn topvar(nodes: Seq<BddNode>, t: int) -> int { nodes[t].var.0 as int }
pub open spec fn min3(a: int, b: int, c: int) -> int { if a <= b { if a <= c { a } else { c } } else { if b <= c { b } else { c } } }

pub broadcast proof fn lemma_ext_den(o: Seq<BddNode>, n: Seq<BddNode>, t: int)
    requires #[trigger] ext(o, n), 0 <= t < o.len(),
    ensures #[trigger] den(n, t) == den(o, t)
    decreases t
{
    if t >= 2 && o[t].lo.0 < t && o[t].hi.0 < t {
        lemma_ext_den(o, n, o[t].lo.0 as int);
        lemma_ext_den(o, n, o[t].hi.0 as int);
    }
}
// ---- algebraic laws
pub proof fn law_restrict_const(b: bool, v: usize, x: bool)
    ensures bf_restrict(bf_const(b), v, x) == bf_const(b)
{ assert(bf_restrict(bf_const(b), v, x) =~= bf_const(b)); }

pub broadcast proof fn law_restrict_node_ne(w: usize, h: BF, l: BF, v: usize, x: bool)
    requires w != v
    ensures #[trigger] bf_restrict(bf_node(w, h, l), v, x) == bf_node(w, bf_restrict(h, v, x), bf_restrict(l, v, x))
{ assert(bf_restrict(bf_node(w, h, l), v, x) =~= bf_node(w, bf_restrict(h, v, x), bf_restrict(l, v, x))); }

pub broadcast proof fn law_restrict_node_eq(h: BF, l: BF, v: usize, x: bool)
    ensures #[trigger] bf_restrict(bf_node(v, h, l), v, x) == (if x { bf_restrict(h, v, x) } else { bf_restrict(l, v, x) })
{ assert(bf_restrict(bf_node(v, h, l), v, x) =~= (if x { bf_restrict(h, v, x) } else { bf_restrict(l, v, x) })); }

pub broadcast proof fn law_restrict_indep(f: BF, v: usize, x: bool)
    requires bf_indep(f, v)
    ensures #[trigger] bf_restrict(f, v, x) == f
{
    assert forall|a: Asg| #[trigger] bf_restrict(f, v, x)(a) == f(a) by {
        assert(f(upd(a, v, x)) == f(a));
    }
    assert(bf_restrict(f, v, x) =~= f);
}
pub proof fn law_indep_const(b: bool, v: usize) ensures bf_indep(bf_const(b), v) {}
pub proof fn law_indep_node(w: usize, h: BF, l: BF, v: usize)
    requires w != v, bf_indep(h, v), bf_indep(l, v)
    ensures bf_indep(bf_node(w, h, l), v)
{
    assert forall|a: Asg, b: bool| #[trigger] bf_node(w, h, l)(upd(a, v, b)) == bf_node(w, h, l)(a) by {
        assert(h(upd(a, v, b)) == h(a));
        assert(l(upd(a, v, b)) == l(a));
    }
}
pub proof fn law_indep_restrict(f: BF, v: usize, x: bool) ensures bf_indep(bf_restrict(f, v, x), v)
{
    assert forall|a: Asg, b: bool| #[trigger] bf_restrict(f, v, x)(upd(a, v, b)) == bf_restrict(f, v, x)(a) by {
        assert(upd(upd(a, v, b), v, x) =~= upd(a, v, x));
    }
}
pub broadcast proof fn law_shannon(f: BF, v: usize)
    ensures #[trigger] bf_node(v, bf_restrict(f, v, true), bf_restrict(f, v, false)) == f
{
    assert forall|a: Asg| #[trigger] bf_node(v, bf_restrict(f, v, true), bf_restrict(f, v, false))(a) == f(a) by {
        assert(upd(a, v, a(v)) =~= a);
    }
    assert(bf_node(v, bf_restrict(f, v, true), bf_restrict(f, v, false)) =~= f);
}
pub broadcast proof fn law_restrict_ite(f: BF, g: BF, h: BF, v: usize, x: bool)
    ensures bf_restrict(bf_ite(f, g, h), v, x) == #[trigger] bf_ite(bf_restrict(f, v, x), bf_restrict(g, v, x), bf_restrict(h, v, x))
{ assert(bf_restrict(bf_ite(f, g, h), v, x) =~= bf_ite(bf_restrict(f, v, x), bf_restrict(g, v, x), bf_restrict(h, v, x))); }
pub broadcast proof fn law_ite_step(f: BF, g: BF, h: BF, v: usize)
    ensures #[trigger] bf_node(v, bf_ite(bf_restrict(f, v, true), bf_restrict(g, v, true), bf_restrict(h, v, true)), bf_ite(bf_restrict(f, v, false), bf_restrict(g, v, false), bf_restrict(h, v, false))) == bf_ite(f, g, h)
{
    law_restrict_ite(f, g, h, v, true);
    law_restrict_ite(f, g, h, v, false);
    law_shannon(bf_ite(f, g, h), v);
}
pub broadcast proof fn law_ite_true(g: BF, h: BF)
    ensures #[trigger] bf_ite(bf_const(true), g, h) == g
{ assert(bf_ite(bf_const(true), g, h) =~= g); }
pub broadcast proof fn law_ite_false(g: BF, h: BF)
    ensures #[trigger] bf_ite(bf_const(false), g, h) == h
{ assert(bf_ite(bf_const(false), g, h) =~= h); }
pub broadcast proof fn law_node_same(v: usize, f: BF) ensures #[trigger] bf_node(v, f, f) == f { assert(bf_node(v, f, f) =~= f); }
pub broadcast proof fn law_ite_same(f: BF, g: BF) ensures #[trigger] bf_ite(f, g, g) == g { assert(bf_ite(f, g, g) =~= g); }
pub broadcast proof fn law_ite_id(f: BF) ensures #[trigger] bf_ite(f, bf_const(true), bf_const(false)) == f { assert(bf_ite(f, bf_const(true), bf_const(false)) =~= f); }

// structural lemma: a well-formed diagram is independent of variables below its top variable
pub broadcast proof fn lemma_den_indep_small(nodes: Seq<BddNode>, t: int, v: usize)
    requires nodes_wf(nodes), 0 <= t < nodes.len(), v < topvar(nodes, t),
    ensures #[trigger] bf_indep(den(nodes, t), v)
    decreases t
{
    if t >= 2 {
        assert(inner_ok(nodes, t));
        lemma_den_indep_small(nodes, nodes[t].lo.0 as int, v);
        lemma_den_indep_small(nodes, nodes[t].hi.0 as int, v);
        law_indep_node(nodes[t].var.0, den(nodes, nodes[t].hi.0 as int), den(nodes, nodes[t].lo.0 as int), v);
    } else {
        law_indep_const(false, v); law_indep_const(true, v);
    }
}

pub open spec fn nodup(nodes: Seq<BddNode>) -> bool { forall|i: int, j: int| 2 <= i < j < nodes.len() ==> nodes[i] != nodes[j] }
pub open spec fn imax(a: int, b: int) -> int { if a >= b { a } else { b } }

pub proof fn lemma_bf_neq_witness(f: BF, g: BF) -> (a: Asg)
    requires f != g
    ensures f(a) != g(a)
{
    if forall|x: Asg| #[trigger] f(x) == g(x) { assert(f =~= g); }
    choose|x: Asg| #[trigger] f(x) != g(x)
}

// an inner node really depends on its own variable
pub proof fn lemma_dep(nodes: Seq<BddNode>, t: int) -> (a: Asg)
    requires nodes_wf(nodes), nodup(nodes), 2 <= t < nodes.len(),
    ensures den(nodes, t)(upd(a, nodes[t].var.0, true)) != den(nodes, t)(upd(a, nodes[t].var.0, false))
    decreases t, 0int
{
    assert(inner_ok(nodes, t));
    let n = nodes[t]; let v = n.var.0; let lo = n.lo.0 as int; let hi = n.hi.0 as int;
    if den(nodes, lo) == den(nodes, hi) { lemma_canon(nodes, lo, hi); }
    let a = lemma_bf_neq_witness(den(nodes, lo), den(nodes, hi));
    lemma_den_indep_small(nodes, lo, v);
    lemma_den_indep_small(nodes, hi, v);
    assert(den(nodes, hi)(upd(a, v, true)) == den(nodes, hi)(a));
    assert(den(nodes, lo)(upd(a, v, false)) == den(nodes, lo)(a));
    assert(upd(a, v, true)(v) == true);
    assert(upd(a, v, false)(v) == false);
    a
}

// canonicity: in a reduced, ordered, duplicate-free table equal functions have equal handles
pub proof fn lemma_canon(nodes: Seq<BddNode>, i: int, j: int)
    requires nodes_wf(nodes), nodup(nodes), 0 <= i < nodes.len(), 0 <= j < nodes.len(), den(nodes, i) == den(nodes, j),
    ensures i == j
    decreases imax(i, j), 1int
{
    let a0: Asg = |x: usize| false;
    if i < 2 && j < 2 {
        assert(bf_const(false)(a0) != bf_const(true)(a0));
    } else if i < 2 {
        let a = lemma_dep(nodes, j);
    } else if j < 2 {
        let a = lemma_dep(nodes, i);
    } else {
        assert(inner_ok(nodes, i)); assert(inner_ok(nodes, j));
        let vi = nodes[i].var.0; let vj = nodes[j].var.0;
        if vi < vj {
            let a = lemma_dep(nodes, i);
            lemma_den_indep_small(nodes, j, vi);
            assert(den(nodes, j)(upd(a, vi, true)) == den(nodes, j)(a));
            assert(den(nodes, j)(upd(a, vi, false)) == den(nodes, j)(a));
        } else if vj < vi {
            let a = lemma_dep(nodes, j);
            lemma_den_indep_small(nodes, i, vj);
            assert(den(nodes, i)(upd(a, vj, true)) == den(nodes, i)(a));
            assert(den(nodes, i)(upd(a, vj, false)) == den(nodes, i)(a));
        } else {
            let v = vi;
            let hi_i = nodes[i].hi.0 as int; let hi_j = nodes[j].hi.0 as int;
            let lo_i = nodes[i].lo.0 as int; let lo_j = nodes[j].lo.0 as int;
            lemma_den_indep_small(nodes, hi_i, v); lemma_den_indep_small(nodes, hi_j, v);
            lemma_den_indep_small(nodes, lo_i, v); lemma_den_indep_small(nodes, lo_j, v);
            assert forall|a: Asg| #[trigger] den(nodes, hi_i)(a) == den(nodes, hi_j)(a) by {
                let b = upd(a, v, true);
                assert(b(v) == true);
                assert(den(nodes, i)(b) == den(nodes, hi_i)(b));
                assert(den(nodes, j)(b) == den(nodes, hi_j)(b));
                assert(den(nodes, hi_i)(b) == den(nodes, hi_i)(a));
                assert(den(nodes, hi_j)(b) == den(nodes, hi_j)(a));
            }
            assert(den(nodes, hi_i) =~= den(nodes, hi_j));
            assert forall|a: Asg| #[trigger] den(nodes, lo_i)(a) == den(nodes, lo_j)(a) by {
                let b = upd(a, v, false);
                assert(b(v) == false);
                assert(den(nodes, i)(b) == den(nodes, lo_i)(b));
                assert(den(nodes, j)(b) == den(nodes, lo_j)(b));
                assert(den(nodes, lo_i)(b) == den(nodes, lo_i)(a));
                assert(den(nodes, lo_j)(b) == den(nodes, lo_j)(a));
            }
            assert(den(nodes, lo_i) =~= den(nodes, lo_j));
            lemma_canon(nodes, hi_i, hi_j);
            lemma_canon(nodes, lo_i, lo_j);
            assert(nodes[i] == nodes[j]);
        }
    }
}


pub open spec fn guard(nodes: Seq<BddNode>, t: int) -> bool { 2 <= t < nodes.len() && nodes[t].lo.0 < t && nodes[t].hi.0 < t }
pub open spec fn supp(nodes: Seq<BddNode>, t: int) -> Set<Var>
    decreases t
{
    if guard(nodes, t) { supp(nodes, nodes[t].lo.0 as int).union(supp(nodes, nodes[t].hi.0 as int)).insert(nodes[t].var) } else { Set::empty() }
}
pub open spec fn paths_spec(nodes: Seq<BddNode>, t: int) -> (int, int)
    decreases t
{
    if t == 0 { (1, 0) } else if t == 1 { (0, 1) }
    else if guard(nodes, t) { let l = paths_spec(nodes, nodes[t].lo.0 as int); let h = paths_spec(nodes, nodes[t].hi.0 as int); (l.0 + h.0, l.1 + h.1) }
    else { (0, 0) }
}
pub open spec fn depth_spec(nodes: Seq<BddNode>, t: int) -> int
    decreases t
{
    if guard(nodes, t) { let l = depth_spec(nodes, nodes[t].lo.0 as int); let h = depth_spec(nodes, nodes[t].hi.0 as int); (if l >= h { l } else { h }) + 1 } else { 0 }
}
pub proof fn lemma_depth_bound(nodes: Seq<BddNode>, t: int)
    requires 0 <= t,
    ensures 0 <= depth_spec(nodes, t) <= t
    decreases t
{ if guard(nodes, t) { lemma_depth_bound(nodes, nodes[t].lo.0 as int); lemma_depth_bound(nodes, nodes[t].hi.0 as int); } }

pub broadcast proof fn lemma_ext_supp(o: Seq<BddNode>, n: Seq<BddNode>, t: int)
    requires #[trigger] ext(o, n), 0 <= t < o.len(),
    ensures #[trigger] supp(n, t) == supp(o, t)
    decreases t
{ if guard(o, t) { lemma_ext_supp(o, n, o[t].lo.0 as int); lemma_ext_supp(o, n, o[t].hi.0 as int); } }
pub broadcast proof fn lemma_ext_paths(o: Seq<BddNode>, n: Seq<BddNode>, t: int)
    requires #[trigger] ext(o, n), 0 <= t < o.len(),
    ensures #[trigger] paths_spec(n, t) == paths_spec(o, t)
    decreases t
{ if guard(o, t) { lemma_ext_paths(o, n, o[t].lo.0 as int); lemma_ext_paths(o, n, o[t].hi.0 as int); } }
pub broadcast proof fn lemma_ext_depth(o: Seq<BddNode>, n: Seq<BddNode>, t: int)
    requires #[trigger] ext(o, n), 0 <= t < o.len(),
    ensures #[trigger] depth_spec(n, t) == depth_spec(o, t)
    decreases t
{ if guard(o, t) { lemma_ext_depth(o, n, o[t].lo.0 as int); lemma_ext_depth(o, n, o[t].hi.0 as int); } }

// a variable outside the support does not influence the function
pub proof fn lemma_supp_indep(nodes: Seq<BddNode>, t: int, v: Var)
    requires nodes_wf(nodes), 0 <= t < nodes.len(), !supp(nodes, t).contains(v),
    ensures bf_indep(den(nodes, t), v.0)
    decreases t
{
    if t >= 2 {
        assert(inner_ok(nodes, t));
        lemma_supp_indep(nodes, nodes[t].lo.0 as int, v);
        lemma_supp_indep(nodes, nodes[t].hi.0 as int, v);
        law_indep_node(nodes[t].var.0, den(nodes, nodes[t].hi.0 as int), den(nodes, nodes[t].lo.0 as int), v.0);
    } else { law_indep_const(false, v.0); law_indep_const(true, v.0); }
}
// in an ordered diagram every variable of the support is at least the top variable
pub proof fn lemma_supp_ge_top(nodes: Seq<BddNode>, t: int, v: Var)
    requires nodes_wf(nodes), 0 <= t < nodes.len(), supp(nodes, t).contains(v),
    ensures v.0 >= topvar(nodes, t), t >= 2,
    decreases t
{
    if t >= 2 {
        assert(inner_ok(nodes, t));
        let lo = nodes[t].lo.0 as int; let hi = nodes[t].hi.0 as int;
        if v != nodes[t].var {
            if supp(nodes, lo).contains(v) { lemma_supp_ge_top(nodes, lo, v); } else { lemma_supp_ge_top(nodes, hi, v); }
        }
    }
}
// ... and every variable of the support IS depended on (reduced + duplicate-free): structural support == semantic dependence
pub proof fn lemma_supp_dep(nodes: Seq<BddNode>, t: int, v: Var) -> (a: Asg)
    requires nodes_wf(nodes), nodup(nodes), 0 <= t < nodes.len(), supp(nodes, t).contains(v),
    ensures den(nodes, t)(upd(a, v.0, true)) != den(nodes, t)(upd(a, v.0, false))
    decreases t
{
    lemma_supp_ge_top(nodes, t, v);
    assert(inner_ok(nodes, t));
    let top = nodes[t].var.0; let lo = nodes[t].lo.0 as int; let hi = nodes[t].hi.0 as int;
    if v == nodes[t].var { lemma_dep(nodes, t) }
    else {
        let side = !supp(nodes, lo).contains(v);
        let c = if side { hi } else { lo };
        assert(supp(nodes, c).contains(v));
        lemma_supp_ge_top(nodes, c, v);
        let a0 = lemma_supp_dep(nodes, c, v);
        let a = upd(a0, top, side);
        lemma_den_indep_small(nodes, c, top);
        assert(v.0 != top);
        assert forall|b: bool| den(nodes, t)(upd(a, v.0, b)) == den(nodes, c)(upd(a0, v.0, b)) by {
            assert(upd(a, v.0, b)(top) == side);
            assert(upd(upd(a0, top, side), v.0, b) =~= upd(upd(a0, v.0, b), top, side));
            assert(den(nodes, c)(upd(upd(a0, v.0, b), top, side)) == den(nodes, c)(upd(a0, v.0, b)));
        }
        a
    }
}
pub open spec fn exp32(d: int) -> nat { ((d as usize) as u32) as nat }
pub open spec fn models_spec(nodes: Seq<BddNode>, t: int) -> (int, int)
    decreases t
{
    if t == 0 { (1, 0) } else if t == 1 { (0, 1) }
    else if guard(nodes, t) {
        let lo = nodes[t].lo.0 as int; let hi = nodes[t].hi.0 as int;
        let l = models_spec(nodes, lo); let h = models_spec(nodes, hi);
        let dl = depth_spec(nodes, lo); let dh = depth_spec(nodes, hi);
        let le = if dl > dh { 0nat } else { exp32(dh - dl) };
        let he = if dl > dh { exp32(dl - dh) } else { 0nat };
        (l.0 * pow2(le) + h.0 * pow2(he), l.1 * pow2(le) + h.1 * pow2(he))
    } else { (0, 0) }
}
pub broadcast proof fn lemma_ext_models(o: Seq<BddNode>, n: Seq<BddNode>, t: int)
    requires #[trigger] ext(o, n), 0 <= t < o.len(),
    ensures #[trigger] models_spec(n, t) == models_spec(o, t)
    decreases t
{ if guard(o, t) { lemma_ext_models(o, n, o[t].lo.0 as int); lemma_ext_models(o, n, o[t].hi.0 as int); lemma_ext_depth(o, n, o[t].lo.0 as int); lemma_ext_depth(o, n, o[t].hi.0 as int); } }
// the model-count component of a count-table entry.  Documented exception (C12): with ad-hoc path counting but without
// ad-hoc model counting the component is not maintained by `node`, so nothing is claimed about it.
#[cfg(all(feature = "adhoccounting", not(feature = "adhoccountmodels")))]
pub open spec fn cc_models_ok(nodes: Seq<BddNode>, t: int, c: ModelCounts) -> bool { true }
#[cfg(any(not(feature = "adhoccounting"), feature = "adhoccountmodels"))]
pub open spec fn cc_models_ok(nodes: Seq<BddNode>, t: int, c: ModelCounts) -> bool { c.cmodels == models_spec(nodes, t).0 && c.models == models_spec(nodes, t).1 }
pub open spec fn cc_paths_ok(nodes: Seq<BddNode>, t: int, c: CountNode) -> bool {
    &&& c.1.cmodels == paths_spec(nodes, t).0 && c.1.models == paths_spec(nodes, t).1
    &&& c.2 == depth_spec(nodes, t)
}
pub open spec fn cc_ok(nodes: Seq<BddNode>, t: int, c: CountNode) -> bool { cc_paths_ok(nodes, t, c) && cc_models_ok(nodes, t, c.0) }
pub open spec fn cc_full(nodes: Seq<BddNode>, t: int, c: CountNode) -> bool {
    cc_paths_ok(nodes, t, c) && c.0.cmodels == models_spec(nodes, t).0 && c.0.models == models_spec(nodes, t).1
}


pub closed spec fn bf_not(f: BF) -> BF { |a: Asg| !f(a) }
pub closed spec fn bf_and(f: BF, g: BF) -> BF { |a: Asg| f(a) && g(a) }
pub closed spec fn bf_or(f: BF, g: BF) -> BF { |a: Asg| f(a) || g(a) }
pub closed spec fn bf_imp(f: BF, g: BF) -> BF { |a: Asg| f(a) ==> g(a) }
pub closed spec fn bf_iff(f: BF, g: BF) -> BF { |a: Asg| f(a) == g(a) }
pub closed spec fn bf_xor(f: BF, g: BF) -> BF { |a: Asg| f(a) != g(a) }
pub closed spec fn bf_var(v: usize) -> BF { |a: Asg| a(v) }
pub broadcast proof fn law_not(f: BF) ensures #[trigger] bf_ite(f, bf_const(false), bf_const(true)) == bf_not(f) { assert(bf_ite(f, bf_const(false), bf_const(true)) =~= bf_not(f)); }
pub broadcast proof fn law_and(f: BF, g: BF) ensures #[trigger] bf_ite(f, g, bf_const(false)) == bf_and(f, g) { assert(bf_ite(f, g, bf_const(false)) =~= bf_and(f, g)); }
pub broadcast proof fn law_or(f: BF, g: BF) ensures #[trigger] bf_ite(f, bf_const(true), g) == bf_or(f, g) { assert(bf_ite(f, bf_const(true), g) =~= bf_or(f, g)); }
pub broadcast proof fn law_imp(f: BF, g: BF) ensures #[trigger] bf_ite(f, g, bf_const(true)) == bf_imp(f, g) { assert(bf_ite(f, g, bf_const(true)) =~= bf_imp(f, g)); }
pub broadcast proof fn law_iff(f: BF, g: BF) ensures #[trigger] bf_ite(f, g, bf_not(g)) == bf_iff(f, g) { assert(bf_ite(f, g, bf_not(g)) =~= bf_iff(f, g)); }
pub broadcast proof fn law_xor(f: BF, g: BF) ensures #[trigger] bf_ite(f, bf_not(g), g) == bf_xor(f, g) { assert(bf_ite(f, bf_not(g), g) =~= bf_xor(f, g)); }
pub broadcast proof fn law_var(v: usize) ensures #[trigger] bf_node(v, bf_const(true), bf_const(false)) == bf_var(v) { assert(bf_node(v, bf_const(true), bf_const(false)) =~= bf_var(v)); }

// evaluating an inner node: follow the high child where the node's variable is true
pub proof fn lemma_den_eval(nodes: Seq<BddNode>, t: int, a: Asg)
    requires nodes_wf(nodes), 2 <= t < nodes.len(),
    ensures den(nodes, t)(a) == (if a(nodes[t].var.0) { den(nodes, nodes[t].hi.0 as int)(a) } else { den(nodes, nodes[t].lo.0 as int)(a) }),
        nodes[t].hi.0 < t, nodes[t].lo.0 < t,
{ assert(inner_ok(nodes, t)); }
pub proof fn lemma_den_term_eval(nodes: Seq<BddNode>, t: int, a: Asg)
    requires 0 <= t <= 1,
    ensures den(nodes, t)(a) == (t == 1)
{ }
// ---------------- #sat (C13, "exact ratio"): definitions; the lemmas are in sat_spec.rs, outside this module, over the public laws only
// number of assignments to the variables listed in vs (all other variables false) that satisfy f
pub open spec fn cnt_sat(f: BF, vs: Seq<usize>) -> nat
    decreases vs.len()
{
    if vs.len() == 0 { if f(|x: usize| false) { 1 } else { 0 } }
    else { cnt_sat(bf_restrict(f, vs.last(), false), vs.drop_last()) + cnt_sat(bf_restrict(f, vs.last(), true), vs.drop_last()) }
}
// ---------------- #sat: the model counters are assignment counts scaled by the depth (C13, "exact ratio")
pub open spec fn distinct(vs: Seq<usize>) -> bool { forall|i: int, j: int| 0 <= i < j < vs.len() ==> vs[i] != vs[j] }
pub proof fn law_indep_restrict_other(f: BF, v: usize, w: usize, x: bool)
    requires bf_indep(f, v), w != v,
    ensures bf_indep(bf_restrict(f, w, x), v)
{
    assert forall|a: Asg, b: bool| #[trigger] bf_restrict(f, w, x)(upd(a, v, b)) == bf_restrict(f, w, x)(a) by {
        assert(upd(upd(a, v, b), w, x) =~= upd(upd(a, w, x), v, b));
        assert(f(upd(upd(a, w, x), v, b)) == f(upd(a, w, x)));
    }
}
// Shannon node over a listed variable whose children ignore it: exactly half of each child's assignments
pub proof fn law_const_eval(b: bool, a: Asg) ensures bf_const(b)(a) == b { }
// negation (named bf_not_ here because bf_not is declared further down in this module, next to the connectives)
pub open spec fn bf_not_(f: BF) -> BF { bf_ite(f, bf_const(false), bf_const(true)) }
pub proof fn law_not_const(b: bool) ensures bf_not_(bf_const(b)) == bf_const(!b) { assert(bf_not_(bf_const(b)) =~= bf_const(!b)); }
pub proof fn law_not_node(v: usize, h: BF, l: BF) ensures bf_not_(bf_node(v, h, l)) == bf_node(v, bf_not_(h), bf_not_(l)) { assert(bf_not_(bf_node(v, h, l)) =~= bf_node(v, bf_not_(h), bf_not_(l))); }
pub proof fn law_indep_not(f: BF, v: usize) requires bf_indep(f, v), ensures bf_indep(bf_not_(f), v)
{ assert forall|a: Asg, b: bool| #[trigger] bf_not_(f)(upd(a, v, b)) == bf_not_(f)(a) by { assert(f(upd(a, v, b)) == f(a)); } }
