// C01 / C09 on the biodivine back-end: the same abstract semantics (sp_sem.rs) over bio_den
pub open spec fn bio_dens(v: Seq<Bdd>) -> Seq<BF> { Seq::new(v.len(), |i: int| bio_den(&v[i])) }
// information value of a biodivine diagram (canonical constants assumed by the stub)
pub open spec fn bio_tvo(b: &Bdd) -> Option<bool> { if bio_den(b) == bf_const(true) { Some(true) } else if bio_den(b) == bf_const(false) { Some(false) } else { None } }
pub open spec fn bio_tvs(v: Seq<Bdd>) -> Seq<Option<bool>> { Seq::new(v.len(), |i: int| bio_tvo(&v[i])) }
pub open spec fn term_of(b: &Bdd) -> Term { if bio_den(b) == bf_const(true) { Term(1) } else if bio_den(b) == bf_const(false) { Term(0) } else { Term(2) } }
pub open spec fn terms_of(v: Seq<Bdd>) -> Seq<Term> { Seq::new(v.len(), |i: int| term_of(&v[i])) }
// the (variable, value) list built from the decided positions below k
pub open spec fn decided_list(vars: Seq<biodivine_lib_bdd::BddVariable>, t: Seq<Term>, k: int) -> Seq<(biodivine_lib_bdd::BddVariable, bool)>
    decreases k
{ if k <= 0 { Seq::empty() } else { let r = decided_list(vars, t, k - 1); if decided(t[k - 1]) { r.push((vars[k - 1], t[k - 1].0 == 1)) } else { r } } }
pub open spec fn vars_ok(vars: Seq<biodivine_lib_bdd::BddVariable>) -> bool { forall|i: int| 0 <= i < vars.len() ==> bv_index(#[trigger] vars[i]) == i }
pub proof fn lemma_restrict_list_cof(f: BF, vars: Seq<biodivine_lib_bdd::BddVariable>, t: Seq<Term>, k: int)
    requires vars_ok(vars), 0 <= k <= t.len(), k <= vars.len(),
    ensures restrict_list(f, decided_list(vars, t, k), decided_list(vars, t, k).len() as int) == cof(f, t, k)
    decreases k
{
    if k > 0 {
        lemma_restrict_list_cof(f, vars, t, k - 1);
        let r = decided_list(vars, t, k - 1);
        if decided(t[k - 1]) {
            let l = r.push((vars[k - 1], t[k - 1].0 == 1));
            assert(l.len() == r.len() + 1);
            assert(l[l.len() - 1] == (vars[k - 1], t[k - 1].0 == 1));
            lemma_restrict_list_prefix(f, r, l, r.len() as int);
        }
    }
}
// restrict_list only looks at the first k entries
pub proof fn lemma_restrict_list_prefix(f: BF, a: Seq<(biodivine_lib_bdd::BddVariable, bool)>, b: Seq<(biodivine_lib_bdd::BddVariable, bool)>, k: int)
    requires 0 <= k <= a.len(), k <= b.len(), forall|j: int| 0 <= j < k ==> a[j] == b[j],
    ensures restrict_list(f, a, k) == restrict_list(f, b, k)
    decreases k
{ if k > 0 { lemma_restrict_list_prefix(f, a, b, k - 1); } }
impl Adf {
    pub open spec fn wf(&self) -> bool { vars_ok(self.vars@) && self.vars@.len() == self.ac@.len() && self.ac@.len() < usize::MAX - 1 }
}
// a vector whose entries are the conditions restricted by the vector's own decided entries, with a rank derivation,
// is the least fixpoint (biodivine version: constants are canonical by the stub's is_true / is_false contract)
pub proof fn lemma_bio_grounded_is_lfp(fs: Seq<BF>, v: Seq<Bdd>, rank: Seq<nat>)
    requires v.len() < usize::MAX, fs.len() == v.len(),
        forall|i: int| 0 <= i < v.len() ==> bio_den(#[trigger] &v[i]) == cof(fs[i], terms_of(v), v.len() as int),
        derivable(fs, terms_of(v), rank),
    ensures is_lfp(fs, tvs(terms_of(v)))
{
    let r = terms_of(v); let tv = tvs(r);
    lemma_const_ne();
    assert forall|i: int| 0 <= i < fs.len() implies #[trigger] tv[i] == gamma_at(fs, tv, i) by {
        lemma_cof_cofv(fs[i], r);
        assert(bio_den(&v[i]) == cofv(fs[i], tv));
    }
    assert(is_fix(fs, tv));
    assert forall|w: Seq<Option<bool>>| #[trigger] is_fix(fs, w) implies below(tv, w) by {
        let k = max_rank(rank, rank.len() as int) + 1;
        lemma_least(fs, r, rank, w, k);
        assert forall|i: int| 0 <= i < tv.len() && (#[trigger] tv[i]).is_some() implies w[i] == tv[i] by {
            lemma_max_rank(rank, rank.len() as int, i);
            assert(decided(r[i]));
        }
    }
}
impl Adf { pub open spec fn vars_wf(&self) -> bool { vars_ok(self.vars@) } }
#[verifier::external_body]
fn __o_bdd_slice_to_vec(s: &[Bdd]) -> (r: Vec<Bdd>) ensures r@ == s@ { s.into() }
pub proof fn lemma_bio_tvo_gamma(fs: Seq<BF>, v: Seq<Term>, i: int, b: &Bdd)
    requires 0 <= i < fs.len(), v.len() < usize::MAX, bio_den(b) == cof(fs[i], v, v.len() as int),
    ensures bio_tvo(b) == gamma_at(fs, tvs(v), i)
{ lemma_const_ne(); lemma_cof_cofv(fs[i], v); }
pub proof fn lemma_terms_of_tvs(v: Seq<Bdd>) ensures tvs(terms_of(v)) =~= bio_tvs(v) { lemma_const_ne(); }
// ---- biodivine-side compilation (C09) and the single-formula rewriting (C03): a common abstract syntax for the crate's
// Formula and the dependency's BooleanExpression
pub enum AbsF { Const(bool), Var(Seq<char>), Not(Box<AbsF>), And(Box<AbsF>, Box<AbsF>), Or(Box<AbsF>, Box<AbsF>), Xor(Box<AbsF>, Box<AbsF>), Imp(Box<AbsF>, Box<AbsF>), Iff(Box<AbsF>, Box<AbsF>) }
pub open spec fn f_abs(f: Formula) -> AbsF
    decreases f
{
    match f {
        Formula::Top => AbsF::Const(true), Formula::Bot => AbsF::Const(false), Formula::Atom(a) => AbsF::Var(a@),
        Formula::Not(x) => AbsF::Not(Box::new(f_abs(*x))),
        Formula::And(x, y) => AbsF::And(Box::new(f_abs(*x)), Box::new(f_abs(*y))), Formula::Or(x, y) => AbsF::Or(Box::new(f_abs(*x)), Box::new(f_abs(*y))),
        Formula::Imp(x, y) => AbsF::Imp(Box::new(f_abs(*x)), Box::new(f_abs(*y))), Formula::Xor(x, y) => AbsF::Xor(Box::new(f_abs(*x)), Box::new(f_abs(*y))),
        Formula::Iff(x, y) => AbsF::Iff(Box::new(f_abs(*x)), Box::new(f_abs(*y))),
    }
}
pub open spec fn e_abs(e: BooleanExpression) -> AbsF
    decreases e
{
    match e {
        BooleanExpression::Const(b) => AbsF::Const(b), BooleanExpression::Variable(s) => AbsF::Var(s@),
        BooleanExpression::Not(x) => AbsF::Not(Box::new(e_abs(*x))),
        BooleanExpression::And(x, y) => AbsF::And(Box::new(e_abs(*x)), Box::new(e_abs(*y))), BooleanExpression::Or(x, y) => AbsF::Or(Box::new(e_abs(*x)), Box::new(e_abs(*y))),
        BooleanExpression::Imp(x, y) => AbsF::Imp(Box::new(e_abs(*x)), Box::new(e_abs(*y))), BooleanExpression::Xor(x, y) => AbsF::Xor(Box::new(e_abs(*x)), Box::new(e_abs(*y))),
        BooleanExpression::Iff(x, y) => AbsF::Iff(Box::new(e_abs(*x)), Box::new(e_abs(*y))),
    }
}
pub open spec fn asem(a: AbsF, idx: spec_fn(Seq<char>) -> Option<usize>) -> BF
    decreases a
{
    match a {
        AbsF::Const(b) => bf_const(b), AbsF::Var(s) => bf_var(idx(s).unwrap()), AbsF::Not(x) => bf_not(asem(*x, idx)),
        AbsF::And(x, y) => bf_and(asem(*x, idx), asem(*y, idx)), AbsF::Or(x, y) => bf_or(asem(*x, idx), asem(*y, idx)),
        AbsF::Xor(x, y) => bf_xor(asem(*x, idx), asem(*y, idx)), AbsF::Imp(x, y) => bf_imp(asem(*x, idx), asem(*y, idx)), AbsF::Iff(x, y) => bf_iff(asem(*x, idx), asem(*y, idx)),
    }
}
pub proof fn lemma_fsem_asem(f: Formula, vc: &VarContainer)
    ensures fsem(f, vc) == asem(f_abs(f), |s: Seq<char>| vc_index(vc, s))
    decreases f
{
    match f {
        Formula::Top => {}, Formula::Bot => {}, Formula::Atom(a) => {},
        Formula::Not(x) => { lemma_fsem_asem(*x, vc); }
        Formula::And(x, y) => { lemma_fsem_asem(*x, vc); lemma_fsem_asem(*y, vc); } Formula::Or(x, y) => { lemma_fsem_asem(*x, vc); lemma_fsem_asem(*y, vc); }
        Formula::Imp(x, y) => { lemma_fsem_asem(*x, vc); lemma_fsem_asem(*y, vc); } Formula::Xor(x, y) => { lemma_fsem_asem(*x, vc); lemma_fsem_asem(*y, vc); }
        Formula::Iff(x, y) => { lemma_fsem_asem(*x, vc); lemma_fsem_asem(*y, vc); }
    }
}
pub proof fn lemma_esem_asem(e: BooleanExpression, vs: &BddVariableSet)
    ensures esem(e, vs) == asem(e_abs(e), |s: Seq<char>| vs_index(vs, s))
    decreases e
{
    match e {
        BooleanExpression::Const(b) => {}, BooleanExpression::Variable(s) => {},
        BooleanExpression::Not(x) => { lemma_esem_asem(*x, vs); }
        BooleanExpression::And(x, y) => { lemma_esem_asem(*x, vs); lemma_esem_asem(*y, vs); } BooleanExpression::Or(x, y) => { lemma_esem_asem(*x, vs); lemma_esem_asem(*y, vs); }
        BooleanExpression::Imp(x, y) => { lemma_esem_asem(*x, vs); lemma_esem_asem(*y, vs); } BooleanExpression::Xor(x, y) => { lemma_esem_asem(*x, vs); lemma_esem_asem(*y, vs); }
        BooleanExpression::Iff(x, y) => { lemma_esem_asem(*x, vs); lemma_esem_asem(*y, vs); }
    }
}
// the biodivine variable set and the ADF dictionary number the statements identically
pub open spec fn names_agree(vs: &BddVariableSet, vc: &VarContainer) -> bool { forall|s: Seq<char>| #[trigger] vs_index(vs, s) == vc_index(vc, s) }
pub proof fn lemma_compile_agree(f: Formula, e: BooleanExpression, vs: &BddVariableSet, vc: &VarContainer)
    requires e_abs(e) == f_abs(f), names_agree(vs, vc),
    ensures esem(e, vs) == fsem(f, vc)
{
    lemma_fsem_asem(f, vc); lemma_esem_asem(e, vs);
    assert((|s: Seq<char>| vs_index(vs, s)) =~= (|s: Seq<char>| vc_index(vc, s)));
}
pub proof fn lemma_compile_agree_all(f: Formula, vs: &BddVariableSet, vc: &VarContainer)
    requires names_agree(vs, vc),
    ensures forall|e: BooleanExpression| e_abs(e) == f_abs(f) ==> #[trigger] esem(e, vs) == fsem(f, vc)
{
    assert forall|e: BooleanExpression| e_abs(e) == f_abs(f) implies #[trigger] esem(e, vs) == fsem(f, vc) by { lemma_compile_agree(f, e, vs, vc); }
}
#[verifier::external_body]
fn __o_str_to_string(s: &str) -> (r: String) ensures r@ == s@ { s.to_string() }
// outlined std expressions of adfbiodivine::Adf::from_parser (rule O)
#[verifier::external_body]
fn __o_parser_names(parser: &AdfParser) -> (r: Vec<String>) ensures r@.len() == p_names(parser).len(), forall|i: int| 0 <= i < r@.len() ==> (#[trigger] r@[i])@ == p_names(parser)[i] { unimplemented!() }
#[verifier::external_body]
fn __o_as_str_vec<'a>(v: &'a Vec<String>) -> (r: Vec<&'a str>) ensures r@.len() == v@.len(), forall|i: int| 0 <= i < r@.len() ==> (#[trigger] r@[i])@ == v@[i]@ { v.iter().map(<_>::as_ref).collect() }
impl Adf {
    // every statement with a formula carries that formula's function (C09, biodivine side)
    pub open spec fn compiled(&self, p: &AdfParser) -> bool {
        &&& self.ac@.len() == p_n(p)
        &&& forall|k: int| 0 <= k < p_order(p).len() ==> bio_den(&self.ac@[#[trigger] p_order(p)[k] as int]) == fsem(p_formula(p, k), &p_vc(p))
    }
    pub open spec fn names_ok(&self) -> bool {
        &&& names_agree(&self.varset, &self.ordering)
        &&& vs_n(&self.varset) == self.ac@.len()
        &&& forall|i: int| 0 <= i < self.ac@.len() ==> vc_name(&self.ordering, i).is_some()
    }
}
// the parsed formulae as functions, in insertion order
pub open spec fn p_fsems(p: &AdfParser) -> Seq<BF> { Seq::new(p_order(p).len(), |j: int| fsem(p_formula(p, j), &p_vc(p))) }
impl Adf {
    // a stored rewriting is implied by the per-statement rewriting: it has every two-valued model among its models (C03)
    pub open spec fn rewrite_ok(&self) -> bool {
        match self.rewrite { Some(b) => bio_nv(&b) == self.ac@.len() && forall|a: Asg| #[trigger] rep_sem(bio_dens(self.ac@), self.ac@.len() as int)(a) ==> bio_den(&b)(a), None => true }
    }
}
// ASSUMED (dependency): sat_valuations enumerates, for every satisfying assignment, a valuation that agrees with it on the
// variables of the diagram's variable set
pub open spec fn val_agrees(v: &BddValuation, a: Asg, n: nat) -> bool { forall|x: usize| x < n ==> #[trigger] val_at(v, x) == a(x) }
#[verifier::external_body]
fn __o_sat_valuations(b: &Bdd) -> (r: Vec<BddValuation>)
    ensures forall|a: Asg| #[trigger] bio_den(b)(a) ==> exists|j: int| 0 <= j < r@.len() && val_agrees(&r@[j], a, bio_nv(b))
{ unimplemented!() }
// the two-valued interpretation read off a valuation
pub open spec fn val_terms(v: &BddValuation, n: nat) -> Seq<Term> { Seq::new(n, |i: int| if val_at(v, i as usize) { Term(1) } else { Term(0) }) }
// the candidate list has every two-valued model of `den` (as an interpretation of length n)
pub open spec fn has_models(r: Seq<Vec<Term>>, den: BF, n: nat) -> bool {
    forall|v: Seq<Term>| v.len() == n && (forall|j: int| 0 <= j < n ==> decided(#[trigger] v[j])) && #[trigger] den(asg_of(tvs(v))) ==> exists|j: int| 0 <= j < r.len() && r[j]@ == v
}
