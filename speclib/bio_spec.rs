// C01 / C09 on the biodivine back-end: the same abstract semantics (sp_sem.rs) over bio_den
pub open spec fn bio_dens(v: Seq<Bdd>) -> Seq<BF> { Seq::new(v.len(), |i: int| bio_den(&v[i])) }
// information value of a biodivine diagram (canonical constants assumed by the stub)
pub open spec fn bio_tvo(b: &Bdd) -> Option<bool> { if bio_den(b) == bf_const(true) { Some(true) } else if bio_den(b) == bf_const(false) { Some(false) } else { None } }
pub open spec fn bio_tvs(v: Seq<Bdd>) -> Seq<Option<bool>> { Seq::new(v.len(), |i: int| bio_tvo(&v[i])) }
pub open spec fn term_of(b: &Bdd) -> Term { if bio_den(b) == bf_const(true) { Term(1) } else if bio_den(b) == bf_const(false) { Term(0) } else { Term(2) } }
pub open spec fn terms_of(v: Seq<Bdd>) -> Seq<Term> { Seq::new(v.len(), |i: int| term_of(&v[i])) }
// the (variable, value) list built from the decided positions below k
pub open spec fn decided_list(vars: Seq<biodivine_lib_bdd::BddVariable>, t: Seq<Term>, k: int) -> Seq<(biodivine_lib_bdd::BddVariable, bool)>
    decreases k
{ if k <= 0 { Seq::empty() } else { let r = decided_list(vars, t, k - 1); if decided(t[k - 1]) { r.push((vars[k - 1], t[k - 1].0 == 1)) } else { r } } }
pub open spec fn vars_ok(vars: Seq<biodivine_lib_bdd::BddVariable>) -> bool { forall|i: int| 0 <= i < vars.len() ==> bv_index(#[trigger] vars[i]) == i }
pub proof fn lemma_restrict_list_cof(f: BF, vars: Seq<biodivine_lib_bdd::BddVariable>, t: Seq<Term>, k: int)
    requires vars_ok(vars), 0 <= k <= t.len(), k <= vars.len(),
    ensures restrict_list(f, decided_list(vars, t, k), decided_list(vars, t, k).len() as int) == cof(f, t, k)
    decreases k
{
    if k > 0 {
        lemma_restrict_list_cof(f, vars, t, k - 1);
        let r = decided_list(vars, t, k - 1);
        if decided(t[k - 1]) {
            let l = r.push((vars[k - 1], t[k - 1].0 == 1));
            assert(l.len() == r.len() + 1);
            assert(l[l.len() - 1] == (vars[k - 1], t[k - 1].0 == 1));
            lemma_restrict_list_prefix(f, r, l, r.len() as int);
        }
    }
}
// restrict_list only looks at the first k entries
pub proof fn lemma_restrict_list_prefix(f: BF, a: Seq<(biodivine_lib_bdd::BddVariable, bool)>, b: Seq<(biodivine_lib_bdd::BddVariable, bool)>, k: int)
    requires 0 <= k <= a.len(), k <= b.len(), forall|j: int| 0 <= j < k ==> a[j] == b[j],
    ensures restrict_list(f, a, k) == restrict_list(f, b, k)
    decreases k
{ if k > 0 { lemma_restrict_list_prefix(f, a, b, k - 1); } }
impl Adf {
    pub open spec fn wf(&self) -> bool { vars_ok(self.vars@) && self.vars@.len() == self.ac@.len() && self.ac@.len() < usize::MAX - 1 }
}
// a vector whose entries are the conditions restricted by the vector's own decided entries, with a rank derivation,
// is the least fixpoint (biodivine version: constants are canonical by the stub's is_true / is_false contract)
pub proof fn lemma_bio_grounded_is_lfp(fs: Seq<BF>, v: Seq<Bdd>, rank: Seq<nat>)
    requires v.len() < usize::MAX, fs.len() == v.len(),
        forall|i: int| 0 <= i < v.len() ==> bio_den(#[trigger] &v[i]) == cof(fs[i], terms_of(v), v.len() as int),
        derivable(fs, terms_of(v), rank),
    ensures is_lfp(fs, tvs(terms_of(v)))
{
    let r = terms_of(v); let tv = tvs(r);
    lemma_const_ne();
    assert forall|i: int| 0 <= i < fs.len() implies #[trigger] tv[i] == gamma_at(fs, tv, i) by {
        lemma_cof_cofv(fs[i], r);
        assert(bio_den(&v[i]) == cofv(fs[i], tv));
    }
    assert(is_fix(fs, tv));
    assert forall|w: Seq<Option<bool>>| #[trigger] is_fix(fs, w) implies below(tv, w) by {
        let k = max_rank(rank, rank.len() as int) + 1;
        lemma_least(fs, r, rank, w, k);
        assert forall|i: int| 0 <= i < tv.len() && (#[trigger] tv[i]).is_some() implies w[i] == tv[i] by {
            lemma_max_rank(rank, rank.len() as int, i);
            assert(decided(r[i]));
        }
    }
}
impl Adf { pub open spec fn vars_wf(&self) -> bool { vars_ok(self.vars@) } }
#[verifier::external_body]
fn __o_bdd_slice_to_vec(s: &[Bdd]) -> (r: Vec<Bdd>) ensures r@ == s@ { s.into() }
pub proof fn lemma_bio_tvo_gamma(fs: Seq<BF>, v: Seq<Term>, i: int, b: &Bdd)
    requires 0 <= i < fs.len(), v.len() < usize::MAX, bio_den(b) == cof(fs[i], v, v.len() as int),
    ensures bio_tvo(b) == gamma_at(fs, tvs(v), i)
{ lemma_const_ne(); lemma_cof_cofv(fs[i], v); }
pub proof fn lemma_terms_of_tvs(v: Seq<Bdd>) ensures tvs(terms_of(v)) =~= bio_tvs(v) { lemma_const_ne(); }
