// C05: the nogood-learning search loop (Adf::nogood_internal)
// number of choice entries on the stack (== length of interpr_history: the two stacks stay in lock-step)
pub open spec fn n_choice(s: Seq<(bool, NoGood)>) -> nat
    decreases s.len()
{ if s.len() == 0 { 0 } else { n_choice(s.drop_last()) + if s.last().0 { 1nat } else { 0nat } } }
pub proof fn lemma_n_choice_push(s: Seq<(bool, NoGood)>, x: (bool, NoGood))
    ensures n_choice(s.push(x)) == n_choice(s) + if x.0 { 1nat } else { 0nat }
{ assert(s.push(x).drop_last() =~= s); }
pub open spec fn below_u32(k: nat) -> Set<u32>
    decreases k
{ if k == 0 { Set::empty() } else { below_u32((k - 1) as nat).insert((k - 1) as u32) } }
pub proof fn lemma_below_len(k: nat)
    requires k <= u32::MAX + 1,
    ensures below_u32(k).len() == k, forall|x: u32| below_u32(k).contains(x) == (x < k)
    decreases k
{
    if k > 0 { lemma_below_len((k - 1) as nat); }
}
// a nogood read off an interpretation of length n has at most n literals
pub proof fn lemma_tv_act_len(ng: &NoGood, tv: Seq<Term>)
    requires is_tv(ng, tv), tv.len() <= u32::MAX,
    ensures ng.act().len() <= tv.len()
{
    lemma_below_len(tv.len());
    assert(ng.act().subset_of(below_u32(tv.len())));
    lemma_len_subset(ng.act(), below_u32(tv.len()));
}
pub open spec fn stack_ok(s: Seq<(bool, NoGood)>, n: int) -> bool { forall|j: int| 0 <= j < s.len() ==> wf_ng(&(#[trigger] s[j]).1) && s[j].1.act().len() <= n }
// what may be sent: a two-valued interpretation of the right length that is a stable model
pub open spec fn good_result(fs: Seq<BF>, v: Seq<Term>) -> bool {
    v.len() == fs.len() && (forall|j: int| 0 <= j < v.len() ==> decided(#[trigger] v[j])) && is_stable(fs, v)
}
pub open spec fn log_ok(l0: Seq<Seq<Term>>, l: Seq<Seq<Term>>, fs: Seq<BF>) -> bool {
    &&& l0.len() <= l.len()
    &&& forall|k: int| 0 <= k < l0.len() ==> l[k] == l0[k]
    &&& forall|k: int| l0.len() <= k < l.len() ==> good_result(fs, #[trigger] l[k])
}
// the functions denoted by a vector of handles do not change when the node table grows
pub proof fn lemma_ext_dens(o: Seq<BddNode>, n: Seq<BddNode>, r: Seq<Term>)
    requires ext(o, n), forall|j: int| 0 <= j < r.len() ==> (#[trigger] r[j]).0 < o.len(),
    ensures dens(n, r) == dens(o, r)
{
    assert forall|i: int| 0 <= i < r.len() implies den(n, r[i].0 as int) == den(o, r[i].0 as int) by { lemma_ext_den(o, n, r[i].0 as int); }
    assert(dens(n, r) =~= dens(o, r));
}
