// C05: the nogood-learning search loop (Adf::nogood_internal)
// number of choice entries on the stack (== length of interpr_history: the two stacks stay in lock-step)
pub open spec fn n_choice(s: Seq<(bool, NoGood)>) -> nat
    decreases s.len()
{ if s.len() == 0 { 0 } else { n_choice(s.drop_last()) + if s.last().0 { 1nat } else { 0nat } } }
pub proof fn lemma_n_choice_push(s: Seq<(bool, NoGood)>, x: (bool, NoGood))
    ensures n_choice(s.push(x)) == n_choice(s) + if x.0 { 1nat } else { 0nat }
{ assert(s.push(x).drop_last() =~= s); }
pub open spec fn below_u32(k: nat) -> Set<u32>
    decreases k
{ if k == 0 { Set::empty() } else { below_u32((k - 1) as nat).insert((k - 1) as u32) } }
pub proof fn lemma_below_len(k: nat)
    requires k <= u32::MAX + 1,
    ensures below_u32(k).len() == k, forall|x: u32| below_u32(k).contains(x) == (x < k)
    decreases k
{
    if k > 0 { lemma_below_len((k - 1) as nat); }
}
// a nogood read off an interpretation of length n has at most n literals
pub proof fn lemma_tv_act_len(ng: &NoGood, tv: Seq<Term>)
    requires is_tv(ng, tv), tv.len() <= u32::MAX,
    ensures ng.act().len() <= tv.len()
{
    lemma_below_len(tv.len());
    assert(ng.act().subset_of(below_u32(tv.len())));
    lemma_len_subset(ng.act(), below_u32(tv.len()));
}
pub open spec fn stack_ok(s: Seq<(bool, NoGood)>, n: int) -> bool { forall|j: int| 0 <= j < s.len() ==> wf_ng(&(#[trigger] s[j]).1) && s[j].1.act().len() <= n }
pub open spec fn log_ok(l0: Seq<Seq<Term>>, l: Seq<Seq<Term>>, fs: Seq<BF>, md: bool) -> bool {
    &&& l0.len() <= l.len()
    &&& forall|k: int| 0 <= k < l0.len() ==> l[k] == l0[k]
    &&& forall|k: int| l0.len() <= k < l.len() ==> goal(fs, md, #[trigger] l[k])
}
// a two-valued interpretation as a total assignment over u32 positions (nogood side) / over usize variables (diagram side)
pub open spec fn ta(m: Seq<Term>) -> TA { |x: u32| (x as int) < m.len() && m[x as int].0 == 1 }
pub proof fn lemma_le_ext_tv(c: Seq<Term>, m: Seq<Term>)
    requires two_valued(m), m.len() == c.len(), c.len() <= u32::MAX,
    ensures le_tv(c, m) == ext_tv(ta(m), c)
{
    if le_tv(c, m) { assert forall|p: int| 0 <= p < c.len() && !und(#[trigger] c[p]) implies ta(m)(p as u32) == (c[p].0 == 1) by { assert(decided(c[p])); } }
    if ext_tv(ta(m), c) { assert forall|p: int| 0 <= p < c.len() && decided(#[trigger] c[p]) implies m[p] == c[p] by { assert(!und(c[p])); assert(ta(m)(p as u32) == (c[p].0 == 1)); assert(decided(m[p])); } }
}
// ---- the combinatorial state of the search
pub ghost struct SS {
    pub fs: Seq<BF>,                   // the conditions' functions
    pub md: bool,                      // two-valued mode
    pub cur: Seq<Term>,                // cur_interpr
    pub stack: Seq<(bool, NoGood)>,    // stack
    pub hist: Seq<Seq<Term>>,          // interpr_history
    pub hpos: Seq<int>,                // ghost: stack position of the l-th choice entry
    pub store: Seq<Vec<NoGood>>,       // ng_store.store
    pub sent: Seq<Seq<Term>>,          // results sent by this call
    pub bt: bool,                      // a backtrack is due: nothing unsent is left below cur
}
pub open spec fn unsent_stable(s: SS, m: Seq<Term>) -> bool { goal(s.fs, s.md, m) && !s.sent.contains(m) }
pub open spec fn below_ng(g: &NoGood, tv: Seq<Term>) -> bool {
    forall|x: u32| #[trigger] g.act().contains(x) ==> (x as int) < tv.len() && decided(tv[x as int]) && (g.val().contains(x) == (tv[x as int].0 == 1))
}
pub open spec fn shape_ok(s: SS) -> bool {
    &&& s.fs.len() <= u32::MAX && s.cur.len() == s.fs.len()
    &&& forall|l: int| 0 <= l < s.hist.len() ==> (#[trigger] s.hist[l]).len() == s.fs.len()
    &&& store_wf(s.store) && s.store.len() == s.fs.len()
    &&& stack_ok(s.stack, s.fs.len() as int)
}
pub open spec fn pos_ok(s: SS) -> bool {
    &&& s.hpos.len() == s.hist.len()
    &&& forall|l: int| 0 <= l < s.hpos.len() ==> 0 <= #[trigger] s.hpos[l] < s.stack.len() && s.stack[s.hpos[l]].0
    &&& forall|l: int, l2: int| 0 <= l < l2 < s.hpos.len() ==> #[trigger] s.hpos[l] < #[trigger] s.hpos[l2]
    &&& forall|j: int| 0 <= j < s.stack.len() && (#[trigger] s.stack[j]).0 ==> exists|l: int| 0 <= l < s.hpos.len() && s.hpos[l] == j
}
pub open spec fn nest_ok(s: SS) -> bool {
    &&& forall|i: int, j: int| 0 <= i < j < s.stack.len() ==> (#[trigger] s.stack[i]).1.matches(&(#[trigger] s.stack[j]).1)
    &&& forall|j: int| 0 <= j < s.stack.len() ==> below_ng(&(#[trigger] s.stack[j]).1, s.cur)
    &&& forall|l: int, j: int| 0 <= l < s.hpos.len() && 0 <= j < s.hpos[l] ==> below_ng(&(#[trigger] s.stack[j]).1, #[trigger] s.hist[l])
}
pub open spec fn safe(s: SS) -> bool { forall|m: Seq<Term>| #[trigger] unsent_stable(s, m) ==> avoids_all(ta(m), s.store) }
pub open spec fn pending_at(s: SS, m: Seq<Term>, l: int) -> bool { 0 <= l < s.hist.len() && le_tv(s.hist[l], m) && !ext_of(ta(m), &s.stack[s.hpos[l]].1) }
pub open spec fn pending(s: SS, m: Seq<Term>) -> bool { exists|l: int| pending_at(s, m, l) }
pub open spec fn cov(s: SS) -> bool { forall|m: Seq<Term>| #[trigger] unsent_stable(s, m) ==> (!s.bt && le_tv(s.cur, m)) || pending(s, m) }
#[verifier::opaque]
pub open spec fn inv(s: SS) -> bool { shape_ok(s) && pos_ok(s) && nest_ok(s) && safe(s) && cov(s) }

pub proof fn lemma_below_le(g: &NoGood, a: Seq<Term>, b: Seq<Term>)
    requires below_ng(g, a), le_tv(a, b),
    ensures below_ng(g, b)
{
    assert forall|x: u32| #[trigger] g.act().contains(x) implies (x as int) < b.len() && decided(b[x as int]) && (g.val().contains(x) == (b[x as int].0 == 1)) by {
        assert(g.val().contains(x) == (a[x as int].0 == 1)); assert(decided(a[x as int])); assert(b[x as int] == a[x as int]);
    }
}
pub proof fn lemma_below_matches(g: &NoGood, tv: Seq<Term>, h: &NoGood)
    requires below_ng(g, tv), is_tv(h, tv),
    ensures g.matches(h)
{
    assert forall|x: u32| g.act().contains(x) implies h.act().contains(x) && (g.val().contains(x) == h.val().contains(x)) by { assert(g.val().contains(x) == (tv[x as int].0 == 1)); }
}
pub proof fn lemma_tv_below(h: &NoGood, tv: Seq<Term>)
    requires is_tv(h, tv),
    ensures below_ng(h, tv)
{ }
// for a two-valued m: the nogood read off c is contained in m  <==>  m refines c
pub proof fn lemma_ext_of_le(g: &NoGood, c: Seq<Term>, m: Seq<Term>)
    requires is_tv(g, c), two_valued(m), m.len() == c.len(), c.len() <= u32::MAX,
    ensures ext_of(ta(m), g) == le_tv(c, m)
{ lemma_ext_tv(ta(m), g, c); lemma_le_ext_tv(c, m); }
// ---- transitions
// (1) branch: remember cur, decide var := term, push the choice entry
pub open spec fn t_choice(s: SS, var: int, term: Term, g: NoGood) -> SS {
    SS { cur: s.cur.update(var, term), stack: s.stack.push((true, g)), hist: s.hist.push(s.cur), hpos: s.hpos.push(s.stack.len() as int), ..s }
}
pub proof fn lemma_t_choice(s: SS, var: int, term: Term, g: NoGood)
    requires inv(s), !s.bt, 0 <= var < s.cur.len(), und(s.cur[var]), decided(term), is_tv(&g, s.cur.update(var, term)), wf_ng(&g),
    ensures inv(t_choice(s, var, term, g))
{
    reveal(inv);
    let s2 = t_choice(s, var, term, g);
    let c2 = s.cur.update(var, term);
    let k = s.stack.len() as int;
    assert(le_tv(s.cur, c2));
    lemma_tv_act_len(&g, c2);
    assert(shape_ok(s2)) by {
        assert forall|l: int| 0 <= l < s2.hist.len() implies (#[trigger] s2.hist[l]).len() == s2.fs.len() by { if l < s.hist.len() { assert(s2.hist[l] == s.hist[l]); } }
        assert forall|j: int| 0 <= j < s2.stack.len() implies wf_ng(&(#[trigger] s2.stack[j]).1) && s2.stack[j].1.act().len() <= s2.fs.len() by { if j < k { assert(s2.stack[j] == s.stack[j]); } }
    }
    assert(pos_ok(s2)) by {
        assert forall|l: int| 0 <= l < s2.hpos.len() implies 0 <= #[trigger] s2.hpos[l] < s2.stack.len() && s2.stack[s2.hpos[l]].0 by { if l < s.hpos.len() { assert(s2.hpos[l] == s.hpos[l]); assert(s2.stack[s.hpos[l]] == s.stack[s.hpos[l]]); } }
        assert forall|l: int, l2: int| 0 <= l < l2 < s2.hpos.len() implies #[trigger] s2.hpos[l] < #[trigger] s2.hpos[l2] by { assert(s2.hpos[l] == s.hpos[l]); if l2 < s.hpos.len() { assert(s2.hpos[l2] == s.hpos[l2]); } }
        assert forall|j: int| 0 <= j < s2.stack.len() && (#[trigger] s2.stack[j]).0 implies exists|l: int| 0 <= l < s2.hpos.len() && s2.hpos[l] == j by {
            if j < k { assert(s2.stack[j] == s.stack[j]); let l = choose|l: int| 0 <= l < s.hpos.len() && s.hpos[l] == j; assert(s2.hpos[l] == j); } else { assert(s2.hpos[s.hpos.len() as int] == j); }
        }
    }
    assert(nest_ok(s2)) by {
        lemma_tv_below(&g, c2);
        assert forall|j: int| 0 <= j < s2.stack.len() implies below_ng(&(#[trigger] s2.stack[j]).1, s2.cur) by { if j < k { assert(s2.stack[j] == s.stack[j]); lemma_below_le(&s.stack[j].1, s.cur, c2); } }
        assert forall|i: int, j: int| 0 <= i < j < s2.stack.len() implies (#[trigger] s2.stack[i]).1.matches(&(#[trigger] s2.stack[j]).1) by {
            assert(s2.stack[i] == s.stack[i]);
            if j < k { assert(s2.stack[j] == s.stack[j]); } else { lemma_below_le(&s.stack[i].1, s.cur, c2); lemma_below_matches(&s.stack[i].1, c2, &g); }
        }
        assert forall|l: int, j: int| 0 <= l < s2.hpos.len() && 0 <= j < s2.hpos[l] implies below_ng(&(#[trigger] s2.stack[j]).1, #[trigger] s2.hist[l]) by {
            assert(s2.stack[j] == s.stack[j]);
            if l < s.hpos.len() { assert(s2.hpos[l] == s.hpos[l]); assert(s2.hist[l] == s.hist[l]); } else { assert(s2.hist[l] == s.cur); }
        }
    }
    assert(safe(s2)) by { assert forall|m: Seq<Term>| #[trigger] unsent_stable(s2, m) implies avoids_all(ta(m), s2.store) by { assert(unsent_stable(s, m)); } }
    assert(cov(s2)) by {
        assert forall|m: Seq<Term>| #[trigger] unsent_stable(s2, m) implies (!s2.bt && le_tv(s2.cur, m)) || pending(s2, m) by {
            assert(unsent_stable(s, m));
            if le_tv(s.cur, m) {
                if !le_tv(c2, m) {
                    let l = s.hist.len() as int;
                    lemma_ext_of_le(&g, c2, m);
                    assert(s2.hist[l] == s.cur); assert(s2.hpos[l] == k); assert(s2.stack[k].1 == g);
                    assert(pending_at(s2, m, l));
                }
            } else {
                let l = choose|l: int| pending_at(s, m, l);
                assert(s2.hist[l] == s.hist[l]); assert(s2.hpos[l] == s.hpos[l]); assert(s2.stack[s.hpos[l]] == s.stack[s.hpos[l]]);
                assert(pending_at(s2, m, l));
            }
        }
    }
}
// (2) nogood propagation changed cur to v (only forced literals): push the propagation entry
pub open spec fn t_prop(s: SS, v: Seq<Term>, g: NoGood) -> SS { SS { cur: v, stack: s.stack.push((false, g)), ..s } }
pub proof fn lemma_t_prop(s: SS, v: Seq<Term>, g: NoGood)
    requires inv(s), !s.bt, tv_forced_ext(s.store, s.cur, v), is_tv(&g, v), wf_ng(&g),
    ensures inv(t_prop(s, v, g)), le_tv(s.cur, v)
{
    reveal(inv);
    let s2 = t_prop(s, v, g);
    let k = s.stack.len() as int;
    assert(le_tv(s.cur, v)) by { assert forall|p: int| 0 <= p < s.cur.len() && decided(#[trigger] s.cur[p]) implies v[p] == s.cur[p] by { assert(!und(s.cur[p])); } }
    lemma_tv_act_len(&g, v);
    assert(shape_ok(s2)) by {
        assert forall|j: int| 0 <= j < s2.stack.len() implies wf_ng(&(#[trigger] s2.stack[j]).1) && s2.stack[j].1.act().len() <= s2.fs.len() by { if j < k { assert(s2.stack[j] == s.stack[j]); } }
    }
    assert(pos_ok(s2)) by {
        assert forall|l: int| 0 <= l < s2.hpos.len() implies 0 <= #[trigger] s2.hpos[l] < s2.stack.len() && s2.stack[s2.hpos[l]].0 by { assert(s2.stack[s.hpos[l]] == s.stack[s.hpos[l]]); }
        assert forall|j: int| 0 <= j < s2.stack.len() && (#[trigger] s2.stack[j]).0 implies exists|l: int| 0 <= l < s2.hpos.len() && s2.hpos[l] == j by { assert(j < k); assert(s2.stack[j] == s.stack[j]); }
    }
    assert(nest_ok(s2)) by {
        lemma_tv_below(&g, v);
        assert forall|j: int| 0 <= j < s2.stack.len() implies below_ng(&(#[trigger] s2.stack[j]).1, s2.cur) by { if j < k { assert(s2.stack[j] == s.stack[j]); lemma_below_le(&s.stack[j].1, s.cur, v); } }
        assert forall|i: int, j: int| 0 <= i < j < s2.stack.len() implies (#[trigger] s2.stack[i]).1.matches(&(#[trigger] s2.stack[j]).1) by {
            assert(s2.stack[i] == s.stack[i]);
            if j < k { assert(s2.stack[j] == s.stack[j]); } else { lemma_below_le(&s.stack[i].1, s.cur, v); lemma_below_matches(&s.stack[i].1, v, &g); }
        }
        assert forall|l: int, j: int| 0 <= l < s2.hpos.len() && 0 <= j < s2.hpos[l] implies below_ng(&(#[trigger] s2.stack[j]).1, #[trigger] s2.hist[l]) by { assert(s2.stack[j] == s.stack[j]); }
    }
    assert(safe(s2)) by { assert forall|m: Seq<Term>| #[trigger] unsent_stable(s2, m) implies avoids_all(ta(m), s2.store) by { assert(unsent_stable(s, m)); } }
    assert(cov(s2)) by {
        assert forall|m: Seq<Term>| #[trigger] unsent_stable(s2, m) implies (!s2.bt && le_tv(s2.cur, m)) || pending(s2, m) by {
            assert(unsent_stable(s, m));
            if le_tv(s.cur, m) {
                assert(two_valued(m));
                lemma_le_ext_tv(s.cur, m); lemma_forced_ext_keeps(s.store, s.cur, v, ta(m)); lemma_le_ext_tv(v, m);
            } else {
                let l = choose|l: int| pending_at(s, m, l);
                assert(s2.stack[s.hpos[l]] == s.stack[s.hpos[l]]);
                assert(pending_at(s2, m, l));
            }
        }
    }
}
// (3) cur replaced by a refinement that loses no stable model (one update step)
pub open spec fn t_upd(s: SS, c2: Seq<Term>) -> SS { SS { cur: c2, ..s } }
pub proof fn lemma_t_upd(s: SS, c2: Seq<Term>)
    requires inv(s), !s.bt, le_tv(s.cur, c2), forall|m: Seq<Term>| #[trigger] goal(s.fs, s.md, m) && le_tv(s.cur, m) ==> le_tv(c2, m),
    ensures inv(t_upd(s, c2))
{
    reveal(inv);
    let s2 = t_upd(s, c2);
    assert(nest_ok(s2)) by { assert forall|j: int| 0 <= j < s2.stack.len() implies below_ng(&(#[trigger] s2.stack[j]).1, s2.cur) by { lemma_below_le(&s.stack[j].1, s.cur, c2); } }
    assert(safe(s2)) by { assert forall|m: Seq<Term>| #[trigger] unsent_stable(s2, m) implies avoids_all(ta(m), s2.store) by { assert(unsent_stable(s, m)); } }
    assert(cov(s2)) by {
        assert forall|m: Seq<Term>| #[trigger] unsent_stable(s2, m) implies (!s2.bt && le_tv(s2.cur, m)) || pending(s2, m) by {
            assert(unsent_stable(s, m));
            if le_tv(s.cur, m) { } else { let l = choose|l: int| pending_at(s, m, l); assert(pending_at(s2, m, l)); }
        }
    }
}
// (4) nothing unsent refines cur: a backtrack is due
pub open spec fn t_bt(s: SS) -> SS { SS { bt: true, ..s } }
pub proof fn lemma_t_bt(s: SS)
    requires inv(s), forall|m: Seq<Term>| #[trigger] unsent_stable(s, m) ==> !le_tv(s.cur, m),
    ensures inv(t_bt(s))
{
    reveal(inv);
    let s2 = t_bt(s);
    assert(safe(s2)) by { assert forall|m: Seq<Term>| #[trigger] unsent_stable(s2, m) implies avoids_all(ta(m), s2.store) by { assert(unsent_stable(s, m)); } }
    assert(cov(s2)) by {
        assert forall|m: Seq<Term>| #[trigger] unsent_stable(s2, m) implies (!s2.bt && le_tv(s2.cur, m)) || pending(s2, m) by {
            assert(unsent_stable(s, m));
            let l = choose|l: int| pending_at(s, m, l); assert(pending_at(s2, m, l));
        }
    }
}
// (5) cur is two-valued and settled: it is recorded (pushed), sent if it is a stable model, and a backtrack is due
pub open spec fn t_leaf(s: SS, g: NoGood, send: bool) -> SS {
    SS { stack: s.stack.push((false, g)), sent: if send { s.sent.push(s.cur) } else { s.sent }, bt: true, ..s }
}
pub proof fn lemma_t_leaf(s: SS, g: NoGood, send: bool)
    requires inv(s), !s.bt, two_valued(s.cur), is_tv(&g, s.cur), wf_ng(&g), send == goal(s.fs, s.md, s.cur),
    ensures inv(t_leaf(s, g, send))
{
    reveal(inv);
    let s2 = t_leaf(s, g, send);
    let k = s.stack.len() as int;
    lemma_tv_act_len(&g, s.cur);
    assert forall|m: Seq<Term>| #[trigger] unsent_stable(s2, m) implies unsent_stable(s, m) by {
        if s.sent.contains(m) { let i = choose|i: int| 0 <= i < s.sent.len() && s.sent[i] == m; assert(s2.sent[i] == m); }
    }
    assert(shape_ok(s2)) by {
        assert forall|j: int| 0 <= j < s2.stack.len() implies wf_ng(&(#[trigger] s2.stack[j]).1) && s2.stack[j].1.act().len() <= s2.fs.len() by { if j < k { assert(s2.stack[j] == s.stack[j]); } }
    }
    assert(pos_ok(s2)) by {
        assert forall|l: int| 0 <= l < s2.hpos.len() implies 0 <= #[trigger] s2.hpos[l] < s2.stack.len() && s2.stack[s2.hpos[l]].0 by { assert(s2.stack[s.hpos[l]] == s.stack[s.hpos[l]]); }
        assert forall|j: int| 0 <= j < s2.stack.len() && (#[trigger] s2.stack[j]).0 implies exists|l: int| 0 <= l < s2.hpos.len() && s2.hpos[l] == j by { assert(j < k); assert(s2.stack[j] == s.stack[j]); }
    }
    assert(nest_ok(s2)) by {
        lemma_tv_below(&g, s.cur);
        assert forall|j: int| 0 <= j < s2.stack.len() implies below_ng(&(#[trigger] s2.stack[j]).1, s2.cur) by { if j < k { assert(s2.stack[j] == s.stack[j]); } }
        assert forall|i: int, j: int| 0 <= i < j < s2.stack.len() implies (#[trigger] s2.stack[i]).1.matches(&(#[trigger] s2.stack[j]).1) by {
            assert(s2.stack[i] == s.stack[i]);
            if j < k { assert(s2.stack[j] == s.stack[j]); } else { lemma_below_matches(&s.stack[i].1, s.cur, &g); }
        }
        assert forall|l: int, j: int| 0 <= l < s2.hpos.len() && 0 <= j < s2.hpos[l] implies below_ng(&(#[trigger] s2.stack[j]).1, #[trigger] s2.hist[l]) by { assert(s2.stack[j] == s.stack[j]); }
    }
    assert(safe(s2)) by { assert forall|m: Seq<Term>| #[trigger] unsent_stable(s2, m) implies avoids_all(ta(m), s2.store) by { assert(unsent_stable(s, m)); } }
    assert(cov(s2)) by {
        assert forall|m: Seq<Term>| #[trigger] unsent_stable(s2, m) implies (!s2.bt && le_tv(s2.cur, m)) || pending(s2, m) by {
            assert(unsent_stable(s, m));
            if le_tv(s.cur, m) {
                // a refinement of a two-valued vector is that vector
                assert(m =~= s.cur) by { assert forall|p: int| 0 <= p < m.len() implies m[p] == s.cur[p] by { assert(decided(s.cur[p])); } }
                if send { assert(s2.sent[s.sent.len() as int] == m); assert(s2.sent.contains(m)); }
                assert(false);
            } else {
                let l = choose|l: int| pending_at(s, m, l);
                assert(s2.stack[s.hpos[l]] == s.stack[s.hpos[l]]);
                assert(pending_at(s2, m, l));
            }
        }
    }
}
// every unsent stable model avoids the popped entry e: some choice entry below (or equal to) it already excludes the model
pub proof fn lemma_pop_safe(s: SS, m: Seq<Term>)
    requires inv(s), s.bt, s.stack.len() > 0, unsent_stable(s, m),
    ensures !ext_of(ta(m), &s.stack.last().1)
{
    reveal(inv);
    assert(pending(s, m));
    let l = choose|l: int| pending_at(s, m, l);
    let top = s.stack.len() - 1;
    assert(0 <= s.hpos[l] <= top);
    if s.hpos[l] < top { assert(s.stack[s.hpos[l]].1.matches(&s.stack[top].1)); if ext_of(ta(m), &s.stack[top].1) { lemma_matches_ext(&s.stack[s.hpos[l]].1, &s.stack[top].1, ta(m)); } }
}
pub open spec fn store_after(old_st: Seq<Vec<NoGood>>, new_st: Seq<Vec<NoGood>>, ng: &NoGood) -> bool {
    &&& store_wf(new_st) && new_st.len() == old_st.len()
    &&& ng.act().len() > 0 ==> excl_add(old_st, new_st, ng)
    &&& ng.act().len() == 0 ==> new_st == old_st
}
// (6) backtracking pops a propagation / leaf entry into the store
pub open spec fn t_pop(s: SS, st2: Seq<Vec<NoGood>>) -> SS { SS { stack: s.stack.drop_last(), store: st2, ..s } }
pub proof fn lemma_t_pop(s: SS, st2: Seq<Vec<NoGood>>)
    requires inv(s), s.bt, s.stack.len() > 0, !s.stack.last().0, store_after(s.store, st2, &s.stack.last().1),
    ensures inv(t_pop(s, st2))
{
    reveal(inv);
    let s2 = t_pop(s, st2);
    let top = s.stack.len() - 1;
    assert forall|l: int| 0 <= l < s.hpos.len() implies #[trigger] s.hpos[l] < top by { if s.hpos[l] == top { assert(s.stack[s.hpos[l]].0); } }
    assert(shape_ok(s2)) by {
        assert forall|j: int| 0 <= j < s2.stack.len() implies wf_ng(&(#[trigger] s2.stack[j]).1) && s2.stack[j].1.act().len() <= s2.fs.len() by { assert(s2.stack[j] == s.stack[j]); }
    }
    assert(pos_ok(s2)) by {
        assert forall|l: int| 0 <= l < s2.hpos.len() implies 0 <= #[trigger] s2.hpos[l] < s2.stack.len() && s2.stack[s2.hpos[l]].0 by { assert(s.hpos[l] < top); assert(s2.stack[s.hpos[l]] == s.stack[s.hpos[l]]); }
        assert forall|j: int| 0 <= j < s2.stack.len() && (#[trigger] s2.stack[j]).0 implies exists|l: int| 0 <= l < s2.hpos.len() && s2.hpos[l] == j by {
            assert(s2.stack[j] == s.stack[j]); assert(s.stack[j].0);
            let l = choose|l: int| 0 <= l < s.hpos.len() && s.hpos[l] == j; assert(s2.hpos[l] == j);
        }
    }
    assert(nest_ok(s2)) by {
        assert forall|j: int| 0 <= j < s2.stack.len() implies below_ng(&(#[trigger] s2.stack[j]).1, s2.cur) by { assert(s2.stack[j] == s.stack[j]); }
        assert forall|i: int, j: int| 0 <= i < j < s2.stack.len() implies (#[trigger] s2.stack[i]).1.matches(&(#[trigger] s2.stack[j]).1) by { assert(s2.stack[i] == s.stack[i]); assert(s2.stack[j] == s.stack[j]); }
        assert forall|l: int, j: int| 0 <= l < s2.hpos.len() && 0 <= j < s2.hpos[l] implies below_ng(&(#[trigger] s2.stack[j]).1, #[trigger] s2.hist[l]) by { assert(s.hpos[l] < top); assert(s2.stack[j] == s.stack[j]); }
    }
    lemma_pop_safe_cov(s, st2, s2, false);
}
// the store and coverage part of a pop (both kinds): s2 differs from s by the popped top entry, the store st2, and - for a
// choice entry - the restored interpretation
pub proof fn lemma_pop_safe_cov(s: SS, st2: Seq<Vec<NoGood>>, s2: SS, ch: bool)
    requires inv(s), s.bt, s.stack.len() > 0, s.stack.last().0 == ch, store_after(s.store, st2, &s.stack.last().1),
        s2 == (if ch { t_pop_choice(s, st2) } else { t_pop(s, st2) }),
        ch ==> s.hist.len() > 0 && s.hpos.last() == s.stack.len() - 1,
    ensures safe(s2), cov(s2)
{
    reveal(inv);
    let top = s.stack.len() - 1;
    let d = s.hist.len() - 1;
    assert forall|m: Seq<Term>| #[trigger] unsent_stable(s2, m) implies avoids_all(ta(m), s2.store) by {
        assert(unsent_stable(s, m)); lemma_pop_safe(s, m);
        assert(avoids_all(ta(m), s.store));
        if s.stack.last().1.act().len() > 0 { assert(avoids_all(ta(m), st2) == (avoids_all(ta(m), s.store) && !ext_of(ta(m), &s.stack.last().1))); }
    }
    assert forall|m: Seq<Term>| #[trigger] unsent_stable(s2, m) implies (!s2.bt && le_tv(s2.cur, m)) || pending(s2, m) by {
        assert(unsent_stable(s, m));
        assert(pending(s, m));
        let l = choose|l: int| pending_at(s, m, l);
        if ch && l == d { assert(le_tv(s2.cur, m)); }
        else {
            assert(s.hpos[l] < top) by { if ch { assert(s.hpos[l] < s.hpos[d]); } else if s.hpos[l] == top { assert(s.stack[s.hpos[l]].0); } }
            assert(s2.stack[s.hpos[l]] == s.stack[s.hpos[l]]);
            assert(s2.hist[l] == s.hist[l]); assert(s2.hpos[l] == s.hpos[l]);
            assert(pending_at(s2, m, l));
        }
    }
}
// (7) backtracking pops the topmost choice entry: the remembered interpretation is restored, the models that did not
// follow the choice are now below cur
pub open spec fn t_pop_choice(s: SS, st2: Seq<Vec<NoGood>>) -> SS {
    SS { stack: s.stack.drop_last(), store: st2, cur: s.hist.last(), hist: s.hist.drop_last(), hpos: s.hpos.drop_last(), bt: false, ..s }
}
pub proof fn lemma_top_choice(s: SS)
    requires pos_ok(s), s.stack.len() > 0, s.stack.last().0,
    ensures s.hist.len() > 0, s.hpos.last() == s.stack.len() - 1
{
    let top = s.stack.len() - 1;
    assert(s.stack[top].0);
    let l = choose|l: int| 0 <= l < s.hpos.len() && s.hpos[l] == top;
    if l < s.hpos.len() - 1 { assert(s.hpos[l] < s.hpos[s.hpos.len() - 1]); }
}
pub proof fn lemma_t_pop_choice(s: SS, st2: Seq<Vec<NoGood>>)
    requires inv(s), s.bt, s.stack.len() > 0, s.stack.last().0, store_after(s.store, st2, &s.stack.last().1),
    ensures inv(t_pop_choice(s, st2)), s.hist.len() > 0
{
    reveal(inv);
    lemma_top_choice(s);
    let s2 = t_pop_choice(s, st2);
    let top = s.stack.len() - 1;
    let d = s.hist.len() - 1;
    assert forall|l: int| 0 <= l < d implies #[trigger] s.hpos[l] < top by { assert(s.hpos[l] < s.hpos[d]); }
    assert(shape_ok(s2)) by {
        assert forall|l: int| 0 <= l < s2.hist.len() implies (#[trigger] s2.hist[l]).len() == s2.fs.len() by { assert(s2.hist[l] == s.hist[l]); }
        assert(s.hist[d].len() == s.fs.len());
        assert forall|j: int| 0 <= j < s2.stack.len() implies wf_ng(&(#[trigger] s2.stack[j]).1) && s2.stack[j].1.act().len() <= s2.fs.len() by { assert(s2.stack[j] == s.stack[j]); }
    }
    assert(pos_ok(s2)) by {
        assert forall|l: int| 0 <= l < s2.hpos.len() implies 0 <= #[trigger] s2.hpos[l] < s2.stack.len() && s2.stack[s2.hpos[l]].0 by { assert(s2.hpos[l] == s.hpos[l]); assert(s.hpos[l] < top); assert(s2.stack[s.hpos[l]] == s.stack[s.hpos[l]]); }
        assert forall|l: int, l2: int| 0 <= l < l2 < s2.hpos.len() implies #[trigger] s2.hpos[l] < #[trigger] s2.hpos[l2] by { assert(s2.hpos[l] == s.hpos[l]); assert(s2.hpos[l2] == s.hpos[l2]); }
        assert forall|j: int| 0 <= j < s2.stack.len() && (#[trigger] s2.stack[j]).0 implies exists|l: int| 0 <= l < s2.hpos.len() && s2.hpos[l] == j by {
            assert(s2.stack[j] == s.stack[j]);
            let l = choose|l: int| 0 <= l < s.hpos.len() && s.hpos[l] == j;
            assert(l < d); assert(s2.hpos[l] == j);
        }
    }
    assert(nest_ok(s2)) by {
        assert forall|j: int| 0 <= j < s2.stack.len() implies below_ng(&(#[trigger] s2.stack[j]).1, s2.cur) by { assert(s2.stack[j] == s.stack[j]); assert(j < s.hpos[d]); }
        assert forall|i: int, j: int| 0 <= i < j < s2.stack.len() implies (#[trigger] s2.stack[i]).1.matches(&(#[trigger] s2.stack[j]).1) by { assert(s2.stack[i] == s.stack[i]); assert(s2.stack[j] == s.stack[j]); }
        assert forall|l: int, j: int| 0 <= l < s2.hpos.len() && 0 <= j < s2.hpos[l] implies below_ng(&(#[trigger] s2.stack[j]).1, #[trigger] s2.hist[l]) by { assert(s2.hpos[l] == s.hpos[l]); assert(s2.hist[l] == s.hist[l]); assert(s.hpos[l] < top); assert(s2.stack[j] == s.stack[j]); }
    }
    lemma_pop_safe_cov(s, st2, s2, true);
}
// (8) the stack is exhausted while a backtrack is due: nothing is left
pub proof fn lemma_done(s: SS)
    requires inv(s), s.bt, s.stack.len() == 0,
    ensures forall|m: Seq<Term>| #[trigger] goal(s.fs, s.md, m) ==> s.sent.contains(m)
{
    reveal(inv);
    assert forall|m: Seq<Term>| #[trigger] goal(s.fs, s.md, m) implies s.sent.contains(m) by {
        if !s.sent.contains(m) { assert(unsent_stable(s, m)); let l = choose|l: int| pending_at(s, m, l); assert(0 <= s.hpos[l] < s.stack.len()); }
    }
}
pub open spec fn t_resume(s: SS) -> SS { SS { bt: false, ..s } }
pub proof fn lemma_t_resume(s: SS)
    requires inv(s), s.bt, s.stack.len() == 0,
    ensures inv(t_resume(s))
{
    reveal(inv);
    lemma_done(s);
    let s2 = t_resume(s);
    assert(safe(s2)) by { assert forall|m: Seq<Term>| #[trigger] unsent_stable(s2, m) implies avoids_all(ta(m), s2.store) by { assert(unsent_stable(s, m)); } }
    assert(cov(s2)) by { assert forall|m: Seq<Term>| #[trigger] unsent_stable(s2, m) implies (!s2.bt && le_tv(s2.cur, m)) || pending(s2, m) by { assert(goal(s.fs, s.md, m)); assert(false); } }
}
// the start: everything refines the initial interpretation, nothing is stored, nothing was sent
pub open spec fn s_init(fs: Seq<BF>, md: bool, c: Seq<Term>, st: Seq<Vec<NoGood>>) -> SS {
    SS { fs: fs, md: md, cur: c, stack: Seq::empty(), hist: Seq::empty(), hpos: Seq::empty(), store: st, sent: Seq::empty(), bt: false }
}
pub proof fn lemma_s_init(fs: Seq<BF>, md: bool, c: Seq<Term>, st: Seq<Vec<NoGood>>)
    requires fs.len() <= u32::MAX, c.len() == fs.len(), store_wf(st), st.len() == fs.len(), forall|b: int| 0 <= b < st.len() ==> (#[trigger] st[b])@.len() == 0,
        forall|m: Seq<Term>| #[trigger] goal(fs, md, m) ==> le_tv(c, m),
    ensures inv(s_init(fs, md, c, st))
{
    reveal(inv);
    let s = s_init(fs, md, c, st);
    assert(safe(s)) by { assert forall|m: Seq<Term>| #[trigger] unsent_stable(s, m) implies avoids_all(ta(m), s.store) by { } }
    assert(cov(s)) by { assert forall|m: Seq<Term>| #[trigger] unsent_stable(s, m) implies (!s.bt && le_tv(s.cur, m)) || pending(s, m) by { assert(goal(fs, md, m)); } }
}
// ---- glue between the program variables and the ghost state
pub open spec fn hview(h: Seq<Vec<Term>>) -> Seq<Seq<Term>> { Seq::new(h.len(), |i: int| h[i]@) }
pub open spec fn noref(s: SS) -> bool { forall|m: Seq<Term>| #[trigger] unsent_stable(s, m) ==> !le_tv(s.cur, m) }
pub proof fn lemma_incons(s: SS)
    requires inv(s), tv_no_extension(s.store, s.cur),
    ensures noref(s)
{
    reveal(inv);
    assert forall|m: Seq<Term>| #[trigger] unsent_stable(s, m) implies !le_tv(s.cur, m) by {
        if le_tv(s.cur, m) { assert(two_valued(m)); lemma_le_ext_tv(s.cur, m); assert(avoids_all(ta(m), s.store)); }
    }
}
pub open spec fn all_track(nodes: Seq<BddNode>, fs: Seq<BF>, c: Seq<Term>, h: Seq<Vec<Term>>) -> bool {
    &&& tracks(nodes, fs, c) && handles_in(nodes, c)
    &&& forall|l: int| 0 <= l < h.len() ==> tracks(nodes, fs, (#[trigger] h[l])@) && handles_in(nodes, h[l]@)
}
pub proof fn lemma_all_track_ext(o: Seq<BddNode>, n: Seq<BddNode>, fs: Seq<BF>, c: Seq<Term>, h: Seq<Vec<Term>>)
    requires all_track(o, fs, c, h), ext(o, n),
    ensures all_track(n, fs, c, h)
{
    lemma_tracks_ext(o, n, fs, c);
    assert forall|l: int| 0 <= l < h.len() implies tracks(n, fs, (#[trigger] h[l])@) && handles_in(n, h[l]@) by { lemma_tracks_ext(o, n, fs, h[l]@); }
}
// what the program needs from the invariant when it pops the top entry
pub proof fn lemma_inv_top(s: SS)
    requires inv(s), s.stack.len() > 0,
    ensures wf_ng(&s.stack.last().1), s.stack.last().1.act().len() <= s.fs.len(), s.store.len() == s.fs.len(), store_wf(s.store),
        s.stack.last().0 ==> s.hist.len() > 0 && s.hist.last().len() == s.fs.len(),
{
    reveal(inv);
    assert(wf_ng(&s.stack[s.stack.len() - 1].1));
    if s.stack.last().0 { lemma_top_choice(s); }
}
pub proof fn lemma_inv_shape(s: SS)
    requires inv(s),
    ensures s.cur.len() == s.fs.len(), s.store.len() == s.fs.len(), store_wf(s.store), s.fs.len() <= u32::MAX,
{ reveal(inv); }
// ================= each stable model is sent once (C05: "each once") =================
// needs at least one statement: on the empty ADF the empty nogood is not stored and the search sends [] for ever (DESIGN section 7)
pub open spec fn in_ok(s: SS) -> bool {
    store_in(s.store, s.fs.len()) && forall|j: int| 0 <= j < s.stack.len() ==> ng_in(&(#[trigger] s.stack[j]).1, s.fs.len())
}
pub open spec fn blocked(s: SS, k: int) -> bool {
    !avoids_all(ta(s.sent[k]), s.store) || (s.bt && k == s.sent.len() - 1 && s.stack.len() > 0 && is_tv(&s.stack.last().1, s.sent[k]))
}
pub open spec fn once(s: SS) -> bool {
    &&& forall|k: int| 0 <= k < s.sent.len() ==> two_valued(#[trigger] s.sent[k]) && s.sent[k].len() == s.fs.len()
    &&& forall|k1: int, k2: int| 0 <= k1 < k2 < s.sent.len() ==> #[trigger] s.sent[k1] != #[trigger] s.sent[k2]
    &&& forall|k: int| 0 <= k < s.sent.len() ==> #[trigger] blocked(s, k)
}
#[verifier::opaque]
pub open spec fn inv2(s: SS) -> bool { s.fs.len() <= u32::MAX && s.cur.len() == s.fs.len() && in_ok(s) && (s.fs.len() > 0 ==> once(s)) }
pub proof fn lemma_tv_in(g: &NoGood, tv: Seq<Term>) requires is_tv(g, tv), ensures ng_in(g, tv.len()) { }
pub proof fn lemma_self_ext(g: &NoGood, m: Seq<Term>)
    requires is_tv(g, m), two_valued(m), m.len() <= u32::MAX,
    ensures ext_of(ta(m), g)
{ lemma_ext_of_le(g, m, m); }
pub proof fn lemma_tv_nonempty(g: &NoGood, m: Seq<Term>)
    requires is_tv(g, m), two_valued(m), 0 < m.len() <= u32::MAX,
    ensures g.act().len() > 0
{
    assert(decided(m[0])); assert(g.act().contains(0u32));
    if g.act().len() == 0 { assert(g.act() =~= Set::<u32>::empty()); }
}
// a settled two-valued interpretation against which the closure found no conflict avoids every stored nogood
pub proof fn lemma_leaf_avoids(st: Seq<Vec<NoGood>>, cur: Seq<Term>, g: &NoGood)
    requires store_in(st, cur.len()), two_valued(cur), is_tv(g, cur), none_matches(st, g), cur.len() <= u32::MAX,
    ensures avoids_all(ta(cur), st)
{
    assert forall|b: int, j: int| 0 <= b < st.len() && 0 <= j < st[b]@.len() implies !ext_of(ta(cur), #[trigger] &st[b]@[j]) by {
        let h = &st[b]@[j];
        if ext_of(ta(cur), h) {
            assert(ng_in(h, cur.len()));
            assert forall|x: u32| h.act().contains(x) implies g.act().contains(x) && (h.val().contains(x) == g.val().contains(x)) by {
                assert(x < cur.len()); assert(decided(cur[x as int])); assert(ta(cur)(x) == h.val().contains(x));
            }
            assert(h.matches(g));
        }
    }
}
pub open spec fn store_after2(old_st: Seq<Vec<NoGood>>, new_st: Seq<Vec<NoGood>>, ng: &NoGood) -> bool {
    &&& store_after(old_st, new_st, ng)
    &&& forall|k: nat| store_in(old_st, k) && ng_in(ng, k) ==> #[trigger] store_in(new_st, k)
}
// pushes (choice / propagation) and plain updates keep inv2
pub proof fn lemma2_push(s: SS, s2: SS, g: NoGood, c2: Seq<Term>, f: bool)
    requires inv2(s), !s.bt, !s2.bt, is_tv(&g, c2), c2.len() == s.fs.len(), s2.fs == s.fs, s2.md == s.md, s2.cur == c2, s2.store == s.store, s2.sent == s.sent,
        s2.stack == s.stack.push((f, g)),
    ensures inv2(s2)
{
    reveal(inv2);
    lemma_tv_in(&g, c2);
    let k = s.stack.len() as int;
    assert forall|j: int| 0 <= j < s2.stack.len() implies ng_in(&(#[trigger] s2.stack[j]).1, s2.fs.len()) by { if j < k { assert(s2.stack[j] == s.stack[j]); } }
    if s.fs.len() > 0 { assert forall|q: int| 0 <= q < s2.sent.len() implies #[trigger] blocked(s2, q) by { assert(blocked(s, q)); } }
}
pub proof fn lemma2_same(s: SS, s2: SS)
    requires inv2(s), !s.bt, s2.fs == s.fs, s2.md == s.md, s2.cur.len() == s.cur.len(), s2.stack == s.stack, s2.store == s.store, s2.sent == s.sent,
    ensures inv2(s2)
{
    reveal(inv2);
    if s.fs.len() > 0 { assert forall|q: int| 0 <= q < s2.sent.len() implies #[trigger] blocked(s2, q) by { assert(blocked(s, q)); } }
}
pub proof fn lemma2_resume(s: SS)
    requires inv2(s), s.bt, s.stack.len() == 0,
    ensures inv2(t_resume(s))
{
    reveal(inv2);
    let s2 = t_resume(s);
    if s.fs.len() > 0 { assert forall|q: int| 0 <= q < s2.sent.len() implies #[trigger] blocked(s2, q) by { assert(blocked(s, q)); } }
}
pub proof fn lemma2_leaf(s: SS, g: NoGood, send: bool)
    requires inv2(s), !s.bt, two_valued(s.cur), is_tv(&g, s.cur), s.fs.len() > 0 ==> avoids_all(ta(s.cur), s.store),
    ensures inv2(t_leaf(s, g, send))
{
    reveal(inv2);
    let s2 = t_leaf(s, g, send);
    lemma_tv_in(&g, s.cur);
    let k = s.stack.len() as int;
    assert forall|j: int| 0 <= j < s2.stack.len() implies ng_in(&(#[trigger] s2.stack[j]).1, s2.fs.len()) by { if j < k { assert(s2.stack[j] == s.stack[j]); } }
    if s.fs.len() > 0 {
        let ns = s.sent.len() as int;
        assert forall|q: int| 0 <= q < s2.sent.len() implies two_valued(#[trigger] s2.sent[q]) && s2.sent[q].len() == s2.fs.len() by { if q < ns { assert(s2.sent[q] == s.sent[q]); } }
        assert forall|k1: int, k2: int| 0 <= k1 < k2 < s2.sent.len() implies #[trigger] s2.sent[k1] != #[trigger] s2.sent[k2] by {
            assert(s2.sent[k1] == s.sent[k1]);
            if k2 < ns { assert(s2.sent[k2] == s.sent[k2]); } else { assert(blocked(s, k1)); }
        }
        assert forall|q: int| 0 <= q < s2.sent.len() implies #[trigger] blocked(s2, q) by {
            if q < ns { assert(s2.sent[q] == s.sent[q]); assert(blocked(s, q)); } else { assert(s2.stack.last().1 == g); }
        }
    }
}
pub proof fn lemma2_pop(s: SS, st2: Seq<Vec<NoGood>>, s2: SS)
    requires inv2(s), s.bt, s.stack.len() > 0, store_after2(s.store, st2, &s.stack.last().1),
        s2 == t_pop(s, st2) || (s.hist.len() > 0 && s.hist.last().len() == s.fs.len() && s2 == t_pop_choice(s, st2)),
    ensures inv2(s2)
{
    reveal(inv2);
    let top = s.stack.len() - 1;
    assert(ng_in(&s.stack[top].1, s.fs.len()));
    assert forall|j: int| 0 <= j < s2.stack.len() implies ng_in(&(#[trigger] s2.stack[j]).1, s2.fs.len()) by { assert(s2.stack[j] == s.stack[j]); }
    if s.fs.len() > 0 {
        assert forall|q: int| 0 <= q < s2.sent.len() implies #[trigger] blocked(s2, q) by {
            assert(blocked(s, q));
            let m = s.sent[q];
            if !avoids_all(ta(m), s.store) {
                if s.stack[top].1.act().len() > 0 { assert(avoids_all(ta(m), st2) == (avoids_all(ta(m), s.store) && !ext_of(ta(m), &s.stack[top].1))); }
            } else {
                assert(is_tv(&s.stack[top].1, m));
                lemma_tv_nonempty(&s.stack[top].1, m); lemma_self_ext(&s.stack[top].1, m);
                assert(avoids_all(ta(m), st2) == (avoids_all(ta(m), s.store) && !ext_of(ta(m), &s.stack[top].1)));
            }
        }
    }
}
pub proof fn lemma2_init(fs: Seq<BF>, md: bool, c: Seq<Term>, st: Seq<Vec<NoGood>>)
    requires fs.len() <= u32::MAX, c.len() == fs.len(), forall|b: int| 0 <= b < st.len() ==> (#[trigger] st[b])@.len() == 0,
    ensures inv2(s_init(fs, md, c, st))
{ reveal(inv2); }
pub proof fn lemma2_once(s: SS)
    requires inv2(s), s.fs.len() > 0,
    ensures forall|k1: int, k2: int| 0 <= k1 < k2 < s.sent.len() ==> #[trigger] s.sent[k1] != #[trigger] s.sent[k2]
{ reveal(inv2); }
pub proof fn lemma2_shape(s: SS)
    requires inv2(s),
    ensures store_in(s.store, s.fs.len()), s.stack.len() > 0 ==> ng_in(&s.stack.last().1, s.fs.len())
{ reveal(inv2); if s.stack.len() > 0 { assert(ng_in(&s.stack[s.stack.len() - 1].1, s.fs.len())); } }
