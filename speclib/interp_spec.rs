// semantic lemmas about interpretations as vectors of handles (shared by the nogood search, C05, and the counting-guided search, C04)
// what may be sent: a two-valued interpretation of the right length that is a stable model
pub open spec fn good_result(fs: Seq<BF>, v: Seq<Term>) -> bool {
    v.len() == fs.len() && (forall|j: int| 0 <= j < v.len() ==> decided(#[trigger] v[j])) && is_stable(fs, v)
}
// the goal of the search: stable models (md == false) or two-valued models (md == true, the stability test is `true`)
pub open spec fn goal(fs: Seq<BF>, md: bool, v: Seq<Term>) -> bool {
    v.len() == fs.len() && (forall|j: int| 0 <= j < v.len() ==> decided(#[trigger] v[j])) && (if md { is_fix(fs, tvs(v)) } else { is_stable(fs, v) })
}
// the functions denoted by a vector of handles do not change when the node table grows
pub proof fn lemma_ext_dens(o: Seq<BddNode>, n: Seq<BddNode>, r: Seq<Term>)
    requires ext(o, n), forall|j: int| 0 <= j < r.len() ==> (#[trigger] r[j]).0 < o.len(),
    ensures dens(n, r) == dens(o, r)
{
    assert forall|i: int| 0 <= i < r.len() implies den(n, r[i].0 as int) == den(o, r[i].0 as int) by { lemma_ext_den(o, n, r[i].0 as int); }
    assert(dens(n, r) =~= dens(o, r));
}
// ================= completeness of the search (C05: "no model is lost") =================
pub open spec fn two_valued(m: Seq<Term>) -> bool { forall|j: int| 0 <= j < m.len() ==> decided(#[trigger] m[j]) }
// m keeps every decided entry of c (m refines c)
pub open spec fn le_tv(c: Seq<Term>, m: Seq<Term>) -> bool { m.len() == c.len() && forall|p: int| 0 <= p < c.len() && decided(#[trigger] c[p]) ==> m[p] == c[p] }
pub open spec fn masg(m: Seq<Term>) -> Asg { asg_of(tvs(m)) }
pub proof fn lemma_le_trans(a: Seq<Term>, b: Seq<Term>, c: Seq<Term>)
    requires le_tv(a, b), le_tv(b, c),
    ensures le_tv(a, c)
{
    assert forall|p: int| 0 <= p < a.len() && decided(#[trigger] a[p]) implies c[p] == a[p] by { assert(b[p] == a[p]); assert(decided(b[p])); }
}
// restricting by the decided entries of c does not change the value at an assignment that refines c
pub proof fn lemma_cof_refines(f: BF, c: Seq<Term>, m: Seq<Term>)
    requires le_tv(c, m), two_valued(m), c.len() < usize::MAX,
    ensures cof(f, c, c.len() as int)(masg(m)) == f(masg(m))
{
    lemma_cof_eval(f, c, c.len() as int, masg(m));
    assert forall|x: usize| #[trigger] ovr(masg(m), c, c.len() as int)(x) == masg(m)(x) by {
        if (x as int) < c.len() && decided(c[x as int]) { assert(m[x as int] == c[x as int]); }
    }
    assert(ovr(masg(m), c, c.len() as int) =~= masg(m));
}
// a stable model is a two-valued model: every condition evaluates to the statement's own value
pub proof fn lemma_stable_model(fs: Seq<BF>, md: bool, m: Seq<Term>, p: int)
    requires goal(fs, md, m), m.len() < usize::MAX, 0 <= p < m.len(),
    ensures fs[p](masg(m)) == (m[p].0 == 1)
{
    if !md { lemma_stable_is_fix(fs, m); }
    assert(total(tvs(m))) by { assert forall|i: int| 0 <= i < tvs(m).len() implies (#[trigger] tvs(m)[i]).is_some() by { assert(decided(m[i])); } }
    lemma_total_fix_is_model(fs, tvs(m), p);
    assert(decided(m[p]));
}
// the undecided entries of c are diagrams that agree with the original conditions on every assignment refining c
pub open spec fn tracks_m(nodes: Seq<BddNode>, fs: Seq<BF>, c: Seq<Term>, m: Seq<Term>) -> bool {
    forall|p: int| 0 <= p < c.len() && und(#[trigger] c[p]) ==> den(nodes, c[p].0 as int)(masg(m)) == fs[p](masg(m))
}
pub open spec fn tracks(nodes: Seq<BddNode>, fs: Seq<BF>, c: Seq<Term>) -> bool {
    forall|m: Seq<Term>| two_valued(m) && #[trigger] le_tv(c, m) ==> tracks_m(nodes, fs, c, m)
}
pub open spec fn handles_in(nodes: Seq<BddNode>, c: Seq<Term>) -> bool { forall|j: int| 0 <= j < c.len() ==> (#[trigger] c[j]).0 < nodes.len() }
pub proof fn lemma_tracks_ext(o: Seq<BddNode>, n: Seq<BddNode>, fs: Seq<BF>, c: Seq<Term>)
    requires tracks(o, fs, c), ext(o, n), handles_in(o, c),
    ensures tracks(n, fs, c)
{
    assert forall|m: Seq<Term>| two_valued(m) && #[trigger] le_tv(c, m) implies tracks_m(n, fs, c, m) by {
        assert(tracks_m(o, fs, c, m));
        assert forall|p: int| 0 <= p < c.len() && und(#[trigger] c[p]) implies den(n, c[p].0 as int)(masg(m)) == fs[p](masg(m)) by { lemma_ext_den(o, n, c[p].0 as int); }
    }
}
// an entry set to a truth value, the others kept: still tracking
pub proof fn lemma_tracks_more_decided(nodes: Seq<BddNode>, fs: Seq<BF>, c: Seq<Term>, c2: Seq<Term>)
    requires tracks(nodes, fs, c), c2.len() == c.len(), le_tv(c, c2), forall|p: int| 0 <= p < c.len() && und(#[trigger] c2[p]) ==> c2[p] == c[p],
    ensures tracks(nodes, fs, c2)
{
    assert forall|m: Seq<Term>| two_valued(m) && #[trigger] le_tv(c2, m) implies tracks_m(nodes, fs, c2, m) by {
        lemma_le_trans(c, c2, m);
        assert(tracks_m(nodes, fs, c, m));
        assert forall|p: int| 0 <= p < c2.len() && und(#[trigger] c2[p]) implies den(nodes, c2[p].0 as int)(masg(m)) == fs[p](masg(m)) by { assert(c2[p] == c[p]); assert(und(c[p])); }
    }
}
// one update step (every entry restricted by the decided entries): decided entries stay (canonicity), tracking is kept,
// and every stable model that refined the old vector refines the new one
pub proof fn lemma_update_step(o: Seq<BddNode>, n: Seq<BddNode>, fs: Seq<BF>, md: bool, c: Seq<Term>, c2: Seq<Term>)
    requires
        nodes_wf(n), nodup(n), ext(o, n), handles_in(o, c), handles_in(n, c2), c2.len() == c.len(), c.len() == fs.len(), c.len() < usize::MAX, o.len() >= 2,
        forall|i: int| 0 <= i < c.len() ==> den(n, (#[trigger] c2[i]).0 as int) == cof(den(o, c[i].0 as int), c, c.len() as int),
        tracks(o, fs, c),
    ensures
        le_tv(c, c2), tracks(n, fs, c2),
        forall|m: Seq<Term>| #[trigger] goal(fs, md, m) && le_tv(c, m) ==> le_tv(c2, m),
{
    let k = c.len() as int;
    assert forall|p: int| 0 <= p < k && decided(#[trigger] c[p]) implies c2[p] == c[p] by {
        lemma_cof_const(c[p].0 == 1, c, k);
        lemma_ext_den(o, n, c[p].0 as int);
        lemma_canon(n, c2[p].0 as int, c[p].0 as int);
    }
    assert forall|m: Seq<Term>| two_valued(m) && #[trigger] le_tv(c2, m) implies tracks_m(n, fs, c2, m) by {
        assert forall|p: int| 0 <= p < k && und(#[trigger] c2[p]) implies den(n, c2[p].0 as int)(masg(m)) == fs[p](masg(m)) by {
            // m refines c as well: a decided entry of c is unchanged in c2
            assert(le_tv(c, m)) by { assert forall|q: int| 0 <= q < k && decided(#[trigger] c[q]) implies m[q] == c[q] by { assert(c2[q] == c[q]); } }
            assert(und(c[p])) by { if decided(c[p]) { assert(c2[p] == c[p]); } }
            assert(tracks_m(o, fs, c, m));
            lemma_cof_refines(den(o, c[p].0 as int), c, m);
        }
    }
    assert forall|m: Seq<Term>| #[trigger] goal(fs, md, m) && le_tv(c, m) implies le_tv(c2, m) by {
        assert forall|p: int| 0 <= p < k && decided(#[trigger] c2[p]) implies m[p] == c2[p] by {
            if decided(c[p]) { assert(c2[p] == c[p]); } else {
                assert(two_valued(m));
                assert(tracks_m(o, fs, c, m));
                assert(und(c[p]));
                lemma_cof_refines(den(o, c[p].0 as int), c, m);
                lemma_stable_model(fs, md, m, p);
                // den(n, c2[p]) is the constant c2[p], and it equals fs[p] at m
                assert(den(n, c2[p].0 as int)(masg(m)) == fs[p](masg(m)));
                lemma_den_const(n, c2[p]);
                assert(decided(m[p]));
            }
        }
    }
}
pub proof fn lemma_den_const(nodes: Seq<BddNode>, t: Term)
    requires decided(t),
    ensures forall|a: Asg| #[trigger] den(nodes, t.0 as int)(a) == (t.0 == 1)
{ lemma_const_eval(); }
// a statement whose condition, restricted by c, is the constant opposite to the statement's own decided value: no stable model refines c
pub proof fn lemma_ac_inconsistent(n: Seq<BddNode>, fs: Seq<BF>, md: bool, c: Seq<Term>, acc: Seq<Term>, p: int)
    requires c.len() == fs.len(), c.len() < usize::MAX, acc.len() == c.len(), 0 <= p < c.len(),
        den(n, acc[p].0 as int) == cof(fs[p], c, c.len() as int),
        decided(c[p]), decided(acc[p]), (c[p].0 == 1) != (acc[p].0 == 1),
    ensures forall|m: Seq<Term>| #[trigger] goal(fs, md, m) ==> !le_tv(c, m)
{
    assert forall|m: Seq<Term>| #[trigger] goal(fs, md, m) implies !le_tv(c, m) by {
        if le_tv(c, m) {
            assert(two_valued(m));
            lemma_cof_refines(fs[p], c, m);
            lemma_stable_model(fs, md, m, p);
            lemma_den_const(n, acc[p]);
            assert(m[p] == c[p]);
        }
    }
}
pub open spec fn ac_bad(c: Seq<Term>, acc: Seq<Term>, p: int) -> bool {
    0 <= p < c.len() && p < acc.len() && decided(c[p]) && decided(acc[p]) && (c[p].0 == 1) != (acc[p].0 == 1)
}
// what the callers establish with the grounded interpretation: every entry is its condition restricted by the decided entries
pub proof fn lemma_tracks_init(nodes: Seq<BddNode>, fs: Seq<BF>, c: Seq<Term>)
    requires c.len() == fs.len(), c.len() < usize::MAX, forall|i: int| 0 <= i < c.len() ==> den(nodes, (#[trigger] c[i]).0 as int) == cof(fs[i], c, c.len() as int),
    ensures tracks(nodes, fs, c)
{
    assert forall|m: Seq<Term>| two_valued(m) && #[trigger] le_tv(c, m) implies tracks_m(nodes, fs, c, m) by {
        assert forall|p: int| 0 <= p < c.len() && und(#[trigger] c[p]) implies den(nodes, c[p].0 as int)(masg(m)) == fs[p](masg(m)) by { lemma_cof_refines(fs[p], c, m); }
    }
}
// every stable model refines the grounded interpretation (the least fixpoint)
pub proof fn lemma_stable_refines_lfp(fs: Seq<BF>, md: bool, c: Seq<Term>)
    requires is_lfp(fs, tvs(c)), c.len() == fs.len(), c.len() < usize::MAX,
    ensures forall|m: Seq<Term>| #[trigger] goal(fs, md, m) ==> le_tv(c, m)
{
    assert forall|m: Seq<Term>| #[trigger] goal(fs, md, m) implies le_tv(c, m) by {
        if !md { lemma_stable_is_fix(fs, m); }
        lemma_fix_refines_lfp(fs, tvs(c), tvs(m));
        assert forall|p: int| 0 <= p < c.len() && decided(#[trigger] c[p]) implies m[p] == c[p] by { assert(tvs(c)[p].is_some()); assert(tvs(m)[p] == tvs(c)[p]); assert(decided(m[p])); }
    }
}
// ================= two-valued mode: the leaf is a two-valued model =================
// f looks only at the variables below n
// a two-valued interpretation that passed the acceptance-condition consistency test is a two-valued model
pub proof fn lemma_leaf_fix(nodes: Seq<BddNode>, fs: Seq<BF>, cur: Seq<Term>, acc: Seq<Term>)
    requires nodes_wf(nodes), nodup(nodes), nodes.len() >= 2, two_valued(cur), cur.len() == fs.len(), acc.len() == fs.len(), cur.len() < usize::MAX,
        handles_in(nodes, acc), all_dep_below(fs),
        forall|p: int| 0 <= p < fs.len() ==> den(nodes, (#[trigger] acc[p]).0 as int) == cof(fs[p], cur, cur.len() as int),
        forall|p: int| 0 <= p < fs.len() ==> !ac_bad(cur, acc, p),
    ensures is_fix(fs, tvs(cur))
{
    let n = cur.len() as int;
    let tv = tvs(cur);
    lemma_const_eval();
    assert forall|p: int| 0 <= p < fs.len() implies #[trigger] tv[p] == gamma_at(fs, tv, p) by {
        let c = fs[p](masg(cur));
        let f = cof(fs[p], cur, n);
        assert forall|a: Asg| #[trigger] f(a) == bf_const(c)(a) by {
            lemma_cof_eval(fs[p], cur, n, a);
            assert(dep_below(fs[p], n));
            assert forall|x: usize| (x as int) < n implies #[trigger] ovr(a, cur, n)(x) == masg(cur)(x) by { assert(decided(cur[x as int])); }
            assert(agree_below(ovr(a, cur, n), masg(cur), n));
            assert(fs[p](ovr(a, cur, n)) == fs[p](masg(cur)));
        }
        assert(f =~= bf_const(c));
        // canonicity: the handle of a constant function is the terminal
        let t = if c { 1int } else { 0int };
        lemma_canon(nodes, acc[p].0 as int, t);
        assert(decided(acc[p]));
        assert(!ac_bad(cur, acc, p));
        assert(decided(cur[p]));
        lemma_cof_cofv(fs[p], cur);
        lemma_const_ne();
    }
}

