pub assume_specification<T: Ord> [core::cmp::min::<T>] (a: T, b: T) -> (r: T)
    ensures T::obeys_cmp_spec() ==> r == (if a.cmp_spec(&b) == std::cmp::Ordering::Greater { b } else { a });


impl PartialOrdSpecImpl for Var {
    open spec fn obeys_partial_cmp_spec() -> bool { true }
    open spec fn partial_cmp_spec(&self, other: &Var) -> Option<Ordering> {
        if self.0 < other.0 { Some(Ordering::Less) } else if self.0 == other.0 { Some(Ordering::Equal) } else { Some(Ordering::Greater) }
    }
}

impl vstd::std_specs::convert::FromSpecImpl<(usize, usize)> for ModelCounts {
    open spec fn obeys_from_spec() -> bool { true }
    open spec fn from_spec(tuple: (usize, usize)) -> Self { ModelCounts { cmodels: tuple.0, models: tuple.1 } }
}

#[verifier::external_body]
fn __o_min_usize(a: usize, b: usize) -> (r: usize) ensures r == (if a <= b { a } else { b }) { a.min(b) }


pub mod sp {
use super::*;
use vstd::arithmetic::power2::*;
pub type Asg = spec_fn(usize) -> bool;
pub type BF = spec_fn(Asg) -> bool;

pub open spec fn upd(a: Asg, v: usize, b: bool) -> Asg { |x: usize| if x == v { b } else { a(x) } }
pub closed spec fn bf_const(b: bool) -> BF { |a: Asg| b }
pub closed spec fn bf_node(v: usize, h: BF, l: BF) -> BF { |a: Asg| if a(v) { h(a) } else { l(a) } }
pub closed spec fn bf_restrict(f: BF, v: usize, b: bool) -> BF { |a: Asg| f(upd(a, v, b)) }
pub closed spec fn bf_ite(f: BF, g: BF, h: BF) -> BF { |a: Asg| if f(a) { g(a) } else { h(a) } }
pub closed spec fn bf_indep(f: BF, v: usize) -> bool { forall|a: Asg, b: bool| #[trigger] f(upd(a, v, b)) == f(a) }

pub open spec fn is_bot_node(n: BddNode) -> bool { n.var.0 == usize::MAX - 1 && n.lo.0 == 0 && n.hi.0 == 0 }
pub open spec fn is_top_node(n: BddNode) -> bool { n.var.0 == usize::MAX && n.lo.0 == 1 && n.hi.0 == 1 }
pub open spec fn inner_ok(nodes: Seq<BddNode>, i: int) -> bool {
    let n = nodes[i];
    &&& n.var.0 < usize::MAX - 1
    &&& n.lo.0 < i && n.hi.0 < i
    &&& n.lo != n.hi
    &&& n.var.0 < nodes[n.lo.0 as int].var.0
    &&& n.var.0 < nodes[n.hi.0 as int].var.0
}
pub open spec fn nodes_wf(nodes: Seq<BddNode>) -> bool {
    &&& nodes.len() >= 2
    &&& is_bot_node(nodes[0]) && is_top_node(nodes[1])
    &&& forall|i: int| 2 <= i < nodes.len() ==> #[trigger] inner_ok(nodes, i)
}
pub open spec fn den(nodes: Seq<BddNode>, t: int) -> BF
    decreases t
{
    if t <= 0 { bf_const(false) } else if t == 1 { bf_const(true) }
    else if t < nodes.len() && nodes[t].lo.0 < t && nodes[t].hi.0 < t {
        bf_node(nodes[t].var.0, den(nodes, nodes[t].hi.0 as int), den(nodes, nodes[t].lo.0 as int))
    } else { bf_const(false) }
}
pub open spec fn ext(o: Seq<BddNode>, n: Seq<BddNode>) -> bool {
    o.len() <= n.len() && forall|k: int| 0 <= k < o.len() ==> n[k] == o[k]
}
pub open spec fn topvar(nodes: Seq<BddNode>, t: int) -> int { nodes[t].var.0 as int }
pub open spec fn min3(a: int, b: int, c: int) -> int { if a <= b { if a <= c { a } else { c } } else { if b <= c { b } else { c } } }

pub broadcast proof fn lemma_ext_den(o: Seq<BddNode>, n: Seq<BddNode>, t: int)
    requires #[trigger] ext(o, n), 0 <= t < o.len(),
    ensures #[trigger] den(n, t) == den(o, t)
    decreases t
{
    if t >= 2 && o[t].lo.0 < t && o[t].hi.0 < t {
        lemma_ext_den(o, n, o[t].lo.0 as int);
        lemma_ext_den(o, n, o[t].hi.0 as int);
    }
}
// ---- algebraic laws
pub proof fn law_restrict_const(b: bool, v: usize, x: bool)
    ensures bf_restrict(bf_const(b), v, x) == bf_const(b)
{ assert(bf_restrict(bf_const(b), v, x) =~= bf_const(b)); }

pub broadcast proof fn law_restrict_node_ne(w: usize, h: BF, l: BF, v: usize, x: bool)
    requires w != v
    ensures #[trigger] bf_restrict(bf_node(w, h, l), v, x) == bf_node(w, bf_restrict(h, v, x), bf_restrict(l, v, x))
{ assert(bf_restrict(bf_node(w, h, l), v, x) =~= bf_node(w, bf_restrict(h, v, x), bf_restrict(l, v, x))); }

pub broadcast proof fn law_restrict_node_eq(h: BF, l: BF, v: usize, x: bool)
    ensures #[trigger] bf_restrict(bf_node(v, h, l), v, x) == (if x { bf_restrict(h, v, x) } else { bf_restrict(l, v, x) })
{ assert(bf_restrict(bf_node(v, h, l), v, x) =~= (if x { bf_restrict(h, v, x) } else { bf_restrict(l, v, x) })); }

pub broadcast proof fn law_restrict_indep(f: BF, v: usize, x: bool)
    requires bf_indep(f, v)
    ensures #[trigger] bf_restrict(f, v, x) == f
{
    assert forall|a: Asg| #[trigger] bf_restrict(f, v, x)(a) == f(a) by {
        assert(f(upd(a, v, x)) == f(a));
    }
    assert(bf_restrict(f, v, x) =~= f);
}
pub proof fn law_indep_const(b: bool, v: usize) ensures bf_indep(bf_const(b), v) {}
pub proof fn law_indep_node(w: usize, h: BF, l: BF, v: usize)
    requires w != v, bf_indep(h, v), bf_indep(l, v)
    ensures bf_indep(bf_node(w, h, l), v)
{
    assert forall|a: Asg, b: bool| #[trigger] bf_node(w, h, l)(upd(a, v, b)) == bf_node(w, h, l)(a) by {
        assert(h(upd(a, v, b)) == h(a));
        assert(l(upd(a, v, b)) == l(a));
    }
}
pub proof fn law_indep_restrict(f: BF, v: usize, x: bool) ensures bf_indep(bf_restrict(f, v, x), v)
{
    assert forall|a: Asg, b: bool| #[trigger] bf_restrict(f, v, x)(upd(a, v, b)) == bf_restrict(f, v, x)(a) by {
        assert(upd(upd(a, v, b), v, x) =~= upd(a, v, x));
    }
}
pub broadcast proof fn law_shannon(f: BF, v: usize)
    ensures #[trigger] bf_node(v, bf_restrict(f, v, true), bf_restrict(f, v, false)) == f
{
    assert forall|a: Asg| #[trigger] bf_node(v, bf_restrict(f, v, true), bf_restrict(f, v, false))(a) == f(a) by {
        assert(upd(a, v, a(v)) =~= a);
    }
    assert(bf_node(v, bf_restrict(f, v, true), bf_restrict(f, v, false)) =~= f);
}
pub broadcast proof fn law_restrict_ite(f: BF, g: BF, h: BF, v: usize, x: bool)
    ensures bf_restrict(bf_ite(f, g, h), v, x) == #[trigger] bf_ite(bf_restrict(f, v, x), bf_restrict(g, v, x), bf_restrict(h, v, x))
{ assert(bf_restrict(bf_ite(f, g, h), v, x) =~= bf_ite(bf_restrict(f, v, x), bf_restrict(g, v, x), bf_restrict(h, v, x))); }
pub broadcast proof fn law_ite_step(f: BF, g: BF, h: BF, v: usize)
    ensures #[trigger] bf_node(v, bf_ite(bf_restrict(f, v, true), bf_restrict(g, v, true), bf_restrict(h, v, true)), bf_ite(bf_restrict(f, v, false), bf_restrict(g, v, false), bf_restrict(h, v, false))) == bf_ite(f, g, h)
{
    law_restrict_ite(f, g, h, v, true);
    law_restrict_ite(f, g, h, v, false);
    law_shannon(bf_ite(f, g, h), v);
}
pub broadcast proof fn law_ite_true(g: BF, h: BF)
    ensures #[trigger] bf_ite(bf_const(true), g, h) == g
{ assert(bf_ite(bf_const(true), g, h) =~= g); }
pub broadcast proof fn law_ite_false(g: BF, h: BF)
    ensures #[trigger] bf_ite(bf_const(false), g, h) == h
{ assert(bf_ite(bf_const(false), g, h) =~= h); }
pub broadcast proof fn law_node_same(v: usize, f: BF) ensures #[trigger] bf_node(v, f, f) == f { assert(bf_node(v, f, f) =~= f); }
pub broadcast proof fn law_ite_same(f: BF, g: BF) ensures #[trigger] bf_ite(f, g, g) == g { assert(bf_ite(f, g, g) =~= g); }
pub broadcast proof fn law_ite_id(f: BF) ensures #[trigger] bf_ite(f, bf_const(true), bf_const(false)) == f { assert(bf_ite(f, bf_const(true), bf_const(false)) =~= f); }

// structural lemma: a well-formed diagram is independent of variables below its top variable
pub broadcast proof fn lemma_den_indep_small(nodes: Seq<BddNode>, t: int, v: usize)
    requires nodes_wf(nodes), 0 <= t < nodes.len(), v < topvar(nodes, t),
    ensures #[trigger] bf_indep(den(nodes, t), v)
    decreases t
{
    if t >= 2 {
        assert(inner_ok(nodes, t));
        lemma_den_indep_small(nodes, nodes[t].lo.0 as int, v);
        lemma_den_indep_small(nodes, nodes[t].hi.0 as int, v);
        law_indep_node(nodes[t].var.0, den(nodes, nodes[t].hi.0 as int), den(nodes, nodes[t].lo.0 as int), v);
    } else {
        law_indep_const(false, v); law_indep_const(true, v);
    }
}

pub open spec fn nodup(nodes: Seq<BddNode>) -> bool { forall|i: int, j: int| 2 <= i < j < nodes.len() ==> nodes[i] != nodes[j] }
pub open spec fn imax(a: int, b: int) -> int { if a >= b { a } else { b } }

pub proof fn lemma_bf_neq_witness(f: BF, g: BF) -> (a: Asg)
    requires f != g
    ensures f(a) != g(a)
{
    if forall|x: Asg| #[trigger] f(x) == g(x) { assert(f =~= g); }
    choose|x: Asg| #[trigger] f(x) != g(x)
}

// an inner node really depends on its own variable
pub proof fn lemma_dep(nodes: Seq<BddNode>, t: int) -> (a: Asg)
    requires nodes_wf(nodes), nodup(nodes), 2 <= t < nodes.len(),
    ensures den(nodes, t)(upd(a, nodes[t].var.0, true)) != den(nodes, t)(upd(a, nodes[t].var.0, false))
    decreases t, 0int
{
    assert(inner_ok(nodes, t));
    let n = nodes[t]; let v = n.var.0; let lo = n.lo.0 as int; let hi = n.hi.0 as int;
    if den(nodes, lo) == den(nodes, hi) { lemma_canon(nodes, lo, hi); }
    let a = lemma_bf_neq_witness(den(nodes, lo), den(nodes, hi));
    lemma_den_indep_small(nodes, lo, v);
    lemma_den_indep_small(nodes, hi, v);
    assert(den(nodes, hi)(upd(a, v, true)) == den(nodes, hi)(a));
    assert(den(nodes, lo)(upd(a, v, false)) == den(nodes, lo)(a));
    assert(upd(a, v, true)(v) == true);
    assert(upd(a, v, false)(v) == false);
    a
}

// canonicity: in a reduced, ordered, duplicate-free table equal functions have equal handles
pub proof fn lemma_canon(nodes: Seq<BddNode>, i: int, j: int)
    requires nodes_wf(nodes), nodup(nodes), 0 <= i < nodes.len(), 0 <= j < nodes.len(), den(nodes, i) == den(nodes, j),
    ensures i == j
    decreases imax(i, j), 1int
{
    let a0: Asg = |x: usize| false;
    if i < 2 && j < 2 {
        assert(bf_const(false)(a0) != bf_const(true)(a0));
    } else if i < 2 {
        let a = lemma_dep(nodes, j);
    } else if j < 2 {
        let a = lemma_dep(nodes, i);
    } else {
        assert(inner_ok(nodes, i)); assert(inner_ok(nodes, j));
        let vi = nodes[i].var.0; let vj = nodes[j].var.0;
        if vi < vj {
            let a = lemma_dep(nodes, i);
            lemma_den_indep_small(nodes, j, vi);
            assert(den(nodes, j)(upd(a, vi, true)) == den(nodes, j)(a));
            assert(den(nodes, j)(upd(a, vi, false)) == den(nodes, j)(a));
        } else if vj < vi {
            let a = lemma_dep(nodes, j);
            lemma_den_indep_small(nodes, i, vj);
            assert(den(nodes, i)(upd(a, vj, true)) == den(nodes, i)(a));
            assert(den(nodes, i)(upd(a, vj, false)) == den(nodes, i)(a));
        } else {
            let v = vi;
            let hi_i = nodes[i].hi.0 as int; let hi_j = nodes[j].hi.0 as int;
            let lo_i = nodes[i].lo.0 as int; let lo_j = nodes[j].lo.0 as int;
            lemma_den_indep_small(nodes, hi_i, v); lemma_den_indep_small(nodes, hi_j, v);
            lemma_den_indep_small(nodes, lo_i, v); lemma_den_indep_small(nodes, lo_j, v);
            assert forall|a: Asg| #[trigger] den(nodes, hi_i)(a) == den(nodes, hi_j)(a) by {
                let b = upd(a, v, true);
                assert(b(v) == true);
                assert(den(nodes, i)(b) == den(nodes, hi_i)(b));
                assert(den(nodes, j)(b) == den(nodes, hi_j)(b));
                assert(den(nodes, hi_i)(b) == den(nodes, hi_i)(a));
                assert(den(nodes, hi_j)(b) == den(nodes, hi_j)(a));
            }
            assert(den(nodes, hi_i) =~= den(nodes, hi_j));
            assert forall|a: Asg| #[trigger] den(nodes, lo_i)(a) == den(nodes, lo_j)(a) by {
                let b = upd(a, v, false);
                assert(b(v) == false);
                assert(den(nodes, i)(b) == den(nodes, lo_i)(b));
                assert(den(nodes, j)(b) == den(nodes, lo_j)(b));
                assert(den(nodes, lo_i)(b) == den(nodes, lo_i)(a));
                assert(den(nodes, lo_j)(b) == den(nodes, lo_j)(a));
            }
            assert(den(nodes, lo_i) =~= den(nodes, lo_j));
            lemma_canon(nodes, hi_i, hi_j);
            lemma_canon(nodes, lo_i, lo_j);
            assert(nodes[i] == nodes[j]);
        }
    }
}


pub open spec fn guard(nodes: Seq<BddNode>, t: int) -> bool { 2 <= t < nodes.len() && nodes[t].lo.0 < t && nodes[t].hi.0 < t }
pub open spec fn supp(nodes: Seq<BddNode>, t: int) -> Set<Var>
    decreases t
{
    if guard(nodes, t) { supp(nodes, nodes[t].lo.0 as int).union(supp(nodes, nodes[t].hi.0 as int)).insert(nodes[t].var) } else { Set::empty() }
}
pub open spec fn paths_spec(nodes: Seq<BddNode>, t: int) -> (int, int)
    decreases t
{
    if t == 0 { (1, 0) } else if t == 1 { (0, 1) }
    else if guard(nodes, t) { let l = paths_spec(nodes, nodes[t].lo.0 as int); let h = paths_spec(nodes, nodes[t].hi.0 as int); (l.0 + h.0, l.1 + h.1) }
    else { (0, 0) }
}
pub open spec fn depth_spec(nodes: Seq<BddNode>, t: int) -> int
    decreases t
{
    if guard(nodes, t) { let l = depth_spec(nodes, nodes[t].lo.0 as int); let h = depth_spec(nodes, nodes[t].hi.0 as int); (if l >= h { l } else { h }) + 1 } else { 0 }
}
pub proof fn lemma_depth_bound(nodes: Seq<BddNode>, t: int)
    requires 0 <= t,
    ensures 0 <= depth_spec(nodes, t) <= t
    decreases t
{ if guard(nodes, t) { lemma_depth_bound(nodes, nodes[t].lo.0 as int); lemma_depth_bound(nodes, nodes[t].hi.0 as int); } }

pub broadcast proof fn lemma_ext_supp(o: Seq<BddNode>, n: Seq<BddNode>, t: int)
    requires #[trigger] ext(o, n), 0 <= t < o.len(),
    ensures #[trigger] supp(n, t) == supp(o, t)
    decreases t
{ if guard(o, t) { lemma_ext_supp(o, n, o[t].lo.0 as int); lemma_ext_supp(o, n, o[t].hi.0 as int); } }
pub broadcast proof fn lemma_ext_paths(o: Seq<BddNode>, n: Seq<BddNode>, t: int)
    requires #[trigger] ext(o, n), 0 <= t < o.len(),
    ensures #[trigger] paths_spec(n, t) == paths_spec(o, t)
    decreases t
{ if guard(o, t) { lemma_ext_paths(o, n, o[t].lo.0 as int); lemma_ext_paths(o, n, o[t].hi.0 as int); } }
pub broadcast proof fn lemma_ext_depth(o: Seq<BddNode>, n: Seq<BddNode>, t: int)
    requires #[trigger] ext(o, n), 0 <= t < o.len(),
    ensures #[trigger] depth_spec(n, t) == depth_spec(o, t)
    decreases t
{ if guard(o, t) { lemma_ext_depth(o, n, o[t].lo.0 as int); lemma_ext_depth(o, n, o[t].hi.0 as int); } }

// a variable outside the support does not influence the function
pub proof fn lemma_supp_indep(nodes: Seq<BddNode>, t: int, v: Var)
    requires nodes_wf(nodes), 0 <= t < nodes.len(), !supp(nodes, t).contains(v),
    ensures bf_indep(den(nodes, t), v.0)
    decreases t
{
    if t >= 2 {
        assert(inner_ok(nodes, t));
        lemma_supp_indep(nodes, nodes[t].lo.0 as int, v);
        lemma_supp_indep(nodes, nodes[t].hi.0 as int, v);
        law_indep_node(nodes[t].var.0, den(nodes, nodes[t].hi.0 as int), den(nodes, nodes[t].lo.0 as int), v.0);
    } else { law_indep_const(false, v.0); law_indep_const(true, v.0); }
}
// in an ordered diagram every variable of the support is at least the top variable
pub proof fn lemma_supp_ge_top(nodes: Seq<BddNode>, t: int, v: Var)
    requires nodes_wf(nodes), 0 <= t < nodes.len(), supp(nodes, t).contains(v),
    ensures v.0 >= topvar(nodes, t), t >= 2,
    decreases t
{
    if t >= 2 {
        assert(inner_ok(nodes, t));
        let lo = nodes[t].lo.0 as int; let hi = nodes[t].hi.0 as int;
        if v != nodes[t].var {
            if supp(nodes, lo).contains(v) { lemma_supp_ge_top(nodes, lo, v); } else { lemma_supp_ge_top(nodes, hi, v); }
        }
    }
}
pub open spec fn exp32(d: int) -> nat { ((d as usize) as u32) as nat }
pub open spec fn models_spec(nodes: Seq<BddNode>, t: int) -> (int, int)
    decreases t
{
    if t == 0 { (1, 0) } else if t == 1 { (0, 1) }
    else if guard(nodes, t) {
        let lo = nodes[t].lo.0 as int; let hi = nodes[t].hi.0 as int;
        let l = models_spec(nodes, lo); let h = models_spec(nodes, hi);
        let dl = depth_spec(nodes, lo); let dh = depth_spec(nodes, hi);
        let le = if dl > dh { 0nat } else { exp32(dh - dl) };
        let he = if dl > dh { exp32(dl - dh) } else { 0nat };
        (l.0 * pow2(le) + h.0 * pow2(he), l.1 * pow2(le) + h.1 * pow2(he))
    } else { (0, 0) }
}
pub broadcast proof fn lemma_ext_models(o: Seq<BddNode>, n: Seq<BddNode>, t: int)
    requires #[trigger] ext(o, n), 0 <= t < o.len(),
    ensures #[trigger] models_spec(n, t) == models_spec(o, t)
    decreases t
{ if guard(o, t) { lemma_ext_models(o, n, o[t].lo.0 as int); lemma_ext_models(o, n, o[t].hi.0 as int); lemma_ext_depth(o, n, o[t].lo.0 as int); lemma_ext_depth(o, n, o[t].hi.0 as int); } }
// the model-count component of a count-table entry.  Documented exception (C12): with ad-hoc path counting but without
// ad-hoc model counting the component is not maintained by `node`, so nothing is claimed about it.
#[cfg(all(feature = "adhoccounting", not(feature = "adhoccountmodels")))]
pub open spec fn cc_models_ok(nodes: Seq<BddNode>, t: int, c: ModelCounts) -> bool { true }
#[cfg(any(not(feature = "adhoccounting"), feature = "adhoccountmodels"))]
pub open spec fn cc_models_ok(nodes: Seq<BddNode>, t: int, c: ModelCounts) -> bool { c.cmodels == models_spec(nodes, t).0 && c.models == models_spec(nodes, t).1 }
pub open spec fn cc_paths_ok(nodes: Seq<BddNode>, t: int, c: CountNode) -> bool {
    &&& c.1.cmodels == paths_spec(nodes, t).0 && c.1.models == paths_spec(nodes, t).1
    &&& c.2 == depth_spec(nodes, t)
}
pub open spec fn cc_ok(nodes: Seq<BddNode>, t: int, c: CountNode) -> bool { cc_paths_ok(nodes, t, c) && cc_models_ok(nodes, t, c.0) }
pub open spec fn cc_full(nodes: Seq<BddNode>, t: int, c: CountNode) -> bool {
    cc_paths_ok(nodes, t, c) && c.0.cmodels == models_spec(nodes, t).0 && c.0.models == models_spec(nodes, t).1
}


pub closed spec fn bf_not(f: BF) -> BF { |a: Asg| !f(a) }
pub closed spec fn bf_and(f: BF, g: BF) -> BF { |a: Asg| f(a) && g(a) }
pub closed spec fn bf_or(f: BF, g: BF) -> BF { |a: Asg| f(a) || g(a) }
pub closed spec fn bf_imp(f: BF, g: BF) -> BF { |a: Asg| f(a) ==> g(a) }
pub closed spec fn bf_iff(f: BF, g: BF) -> BF { |a: Asg| f(a) == g(a) }
pub closed spec fn bf_xor(f: BF, g: BF) -> BF { |a: Asg| f(a) != g(a) }
pub closed spec fn bf_var(v: usize) -> BF { |a: Asg| a(v) }
pub broadcast proof fn law_not(f: BF) ensures #[trigger] bf_ite(f, bf_const(false), bf_const(true)) == bf_not(f) { assert(bf_ite(f, bf_const(false), bf_const(true)) =~= bf_not(f)); }
pub broadcast proof fn law_and(f: BF, g: BF) ensures #[trigger] bf_ite(f, g, bf_const(false)) == bf_and(f, g) { assert(bf_ite(f, g, bf_const(false)) =~= bf_and(f, g)); }
pub broadcast proof fn law_or(f: BF, g: BF) ensures #[trigger] bf_ite(f, bf_const(true), g) == bf_or(f, g) { assert(bf_ite(f, bf_const(true), g) =~= bf_or(f, g)); }
pub broadcast proof fn law_imp(f: BF, g: BF) ensures #[trigger] bf_ite(f, g, bf_const(true)) == bf_imp(f, g) { assert(bf_ite(f, g, bf_const(true)) =~= bf_imp(f, g)); }
pub broadcast proof fn law_iff(f: BF, g: BF) ensures #[trigger] bf_ite(f, g, bf_not(g)) == bf_iff(f, g) { assert(bf_ite(f, g, bf_not(g)) =~= bf_iff(f, g)); }
pub broadcast proof fn law_xor(f: BF, g: BF) ensures #[trigger] bf_ite(f, bf_not(g), g) == bf_xor(f, g) { assert(bf_ite(f, bf_not(g), g) =~= bf_xor(f, g)); }
pub broadcast proof fn law_var(v: usize) ensures #[trigger] bf_node(v, bf_const(true), bf_const(false)) == bf_var(v) { assert(bf_node(v, bf_const(true), bf_const(false)) =~= bf_var(v)); }

} // mod sp
use sp::*;

pub mod axioms {
    use super::*;
    #[verifier::external_body]
    pub broadcast proof fn axiom_key_bddnode() ensures #[trigger] obeys_key_model::<BddNode>() {}
    #[verifier::external_body]
    pub broadcast proof fn axiom_key_ite() ensures #[trigger] obeys_key_model::<(Term, Term, Term)>() {}
    #[verifier::external_body]
    pub broadcast proof fn axiom_key_var() ensures #[trigger] obeys_key_model::<Var>() {}
    #[verifier::external_body]
    pub broadcast proof fn axiom_key_term() ensures #[trigger] obeys_key_model::<Term>() {}
    #[verifier::external_body]
    pub broadcast proof fn axiom_key_restrict() ensures #[trigger] obeys_key_model::<(Term, Var, bool)>() {}
}
broadcast use {sp::lemma_ext_den, group_hash_axioms, axioms::axiom_key_bddnode, axioms::axiom_key_ite, axioms::axiom_key_restrict, axioms::axiom_key_var, axioms::axiom_key_term, sp::lemma_ext_supp, sp::lemma_ext_paths, sp::lemma_ext_depth};

// a memo entry has a *shape* part (C06: handles in range, ordering facts used for termination and for node's precondition)
// and a *denotation* part (C07/C11: the cached answer is the right function)
pub open spec fn ite_entry_shape(nodes: Seq<BddNode>, k: (Term, Term, Term), v: Term) -> bool {
    &&& k.0.0 < nodes.len() && k.1.0 < nodes.len() && k.2.0 < nodes.len() && v.0 < nodes.len()
    &&& topvar(nodes, v.0 as int) >= min3(topvar(nodes, k.0.0 as int), topvar(nodes, k.1.0 as int), topvar(nodes, k.2.0 as int))
}
pub open spec fn ite_entry_den(nodes: Seq<BddNode>, k: (Term, Term, Term), v: Term) -> bool {
    den(nodes, v.0 as int) == bf_ite(den(nodes, k.0.0 as int), den(nodes, k.1.0 as int), den(nodes, k.2.0 as int))
}
pub open spec fn ite_entry_ok(nodes: Seq<BddNode>, k: (Term, Term, Term), v: Term) -> bool { ite_entry_shape(nodes, k, v) && ite_entry_den(nodes, k, v) }
pub open spec fn restrict_entry_shape(nodes: Seq<BddNode>, k: (Term, Var, bool), v: Term) -> bool {
    &&& k.0.0 < nodes.len() && v.0 < nodes.len()
    &&& topvar(nodes, v.0 as int) >= topvar(nodes, k.0.0 as int)
    &&& topvar(nodes, v.0 as int) != k.1.0
}
pub open spec fn restrict_entry_den(nodes: Seq<BddNode>, k: (Term, Var, bool), v: Term) -> bool {
    den(nodes, v.0 as int) == bf_restrict(den(nodes, k.0.0 as int), k.1.0, k.2)
}
pub open spec fn restrict_entry_ok(nodes: Seq<BddNode>, k: (Term, Var, bool), v: Term) -> bool { restrict_entry_shape(nodes, k, v) && restrict_entry_den(nodes, k, v) }
pub proof fn lemma_ext_entries(o: Seq<BddNode>, n: Seq<BddNode>)
    requires ext(o, n),
    ensures
        forall|k: (Term, Term, Term), v: Term| #[trigger] ite_entry_shape(o, k, v) ==> ite_entry_shape(n, k, v),
        forall|k: (Term, Var, bool), v: Term| #[trigger] restrict_entry_shape(o, k, v) ==> restrict_entry_shape(n, k, v),
        forall|k: (Term, Term, Term), v: Term| ite_entry_shape(o, k, v) && #[trigger] ite_entry_den(o, k, v) ==> ite_entry_den(n, k, v),
        forall|k: (Term, Var, bool), v: Term| restrict_entry_shape(o, k, v) && #[trigger] restrict_entry_den(o, k, v) ==> restrict_entry_den(n, k, v),
{
}

#[verifier::external_body]
fn __o_union_copied_collect(a: &HashSet<Var>, b: &HashSet<Var>) -> (r: HashSet<Var>) ensures r@ == a@.union(b@) { a.union(b).copied().collect() }
#[verifier::external_body]
fn __o_hashset_clone(a: &HashSet<Var>) -> (r: HashSet<Var>) ensures r@ == a@ { a.clone() }
#[verifier::external_body]
fn __o_max_usize(a: usize, b: usize) -> (r: usize) ensures r == (if a >= b { a } else { b }) { std::cmp::max(a, b) }
#[verifier::external_body]
fn __o_pow2(e: u32) -> (r: usize) requires e < 64 ensures r == vstd::arithmetic::power2::pow2(e as nat) { 2usize.pow(e) }


// Each component of the representation invariant is a predicate over the *views of the fields it reads*, so that an
// operation that leaves those fields alone preserves it by congruence (no quantifier reasoning, stable proofs).
// ---- C06 / C11: node table reduced + ordered, unique table exact (=> no duplicates), memo tables hold only correct entries
pub open spec fn core_ok(nodes: Seq<BddNode>, cache: Map<BddNode, Term>, ite: Map<(Term, Term, Term), Term>, rc: Map<(Term, Var, bool), Term>) -> bool {
    &&& nodes_wf(nodes)
    &&& forall|n: BddNode| #[trigger] cache.contains_key(n) ==> 2 <= cache[n].0 < nodes.len() && nodes[cache[n].0 as int] == n
    &&& forall|i: int| 2 <= i < nodes.len() ==> cache.contains_key(#[trigger] nodes[i]) && cache[nodes[i]].0 == i
    &&& forall|k: (Term, Term, Term)| #[trigger] ite.contains_key(k) ==> ite_entry_shape(nodes, k, ite[k])
    &&& forall|k: (Term, Var, bool)| #[trigger] rc.contains_key(k) ==> restrict_entry_shape(nodes, k, rc[k])
}
// ---- C07 / C11: every memoised answer denotes the right function
pub open spec fn memo_ok(nodes: Seq<BddNode>, ite: Map<(Term, Term, Term), Term>, rc: Map<(Term, Var, bool), Term>) -> bool {
    &&& forall|k: (Term, Term, Term)| #[trigger] ite.contains_key(k) ==> ite_entry_den(nodes, k, ite[k])
    &&& forall|k: (Term, Var, bool)| #[trigger] rc.contains_key(k) ==> restrict_entry_den(nodes, k, rc[k])
}
// ---- C13 (and C07 through the early exit of restrict): the stored dependency sets are the supports
pub open spec fn deps_ok(nodes: Seq<BddNode>, vd: Seq<HashSet<Var>>) -> bool {
    &&& vd.len() == nodes.len()
    &&& forall|i: int| 0 <= i < nodes.len() ==> (#[trigger] vd[i])@ == supp(nodes, i)
}
// ---- C13 / C11: the count table: every entry present is right; with ad-hoc counting every handle has an entry
pub open spec fn counts_present_ok(nodes: Seq<BddNode>, cc: Map<Term, CountNode>) -> bool {
    forall|t: Term| #[trigger] cc.contains_key(t) ==> t.0 < nodes.len() && cc_ok(nodes, t.0 as int, cc[t])
}
#[cfg(feature = "adhoccounting")]
pub open spec fn counts_ok(nodes: Seq<BddNode>, cc: Map<Term, CountNode>) -> bool {
    counts_present_ok(nodes, cc) && forall|t: Term| t.0 < nodes.len() ==> #[trigger] cc.contains_key(t)
}
#[cfg(not(feature = "adhoccounting"))]
pub open spec fn counts_ok(nodes: Seq<BddNode>, cc: Map<Term, CountNode>) -> bool { counts_present_ok(nodes, cc) }
// ---- frame lemmas for `Bdd::node` (the heavy quantifier reasoning lives here, once, outside the function bodies)
pub proof fn lemma_core_push(o: Seq<BddNode>, n: Seq<BddNode>, co: Map<BddNode, Term>, cn: Map<BddNode, Term>, ite: Map<(Term, Term, Term), Term>, rc: Map<(Term, Var, bool), Term>, node: BddNode, nt: Term)
    requires
        core_ok(o, co, ite, rc), n == o.push(node), !co.contains_key(node), cn == co.insert(node, nt), nt.0 == o.len(),
        node.var.0 < usize::MAX - 1, node.lo.0 < o.len(), node.hi.0 < o.len(), node.lo != node.hi,
        node.var.0 < topvar(o, node.lo.0 as int), node.var.0 < topvar(o, node.hi.0 as int),
    ensures core_ok(n, cn, ite, rc), ext(o, n),
{
    assert(ext(o, n));
    lemma_ext_entries(o, n);
    assert forall|i: int| 2 <= i < n.len() implies #[trigger] inner_ok(n, i) by { if i < o.len() { assert(inner_ok(o, i)); } }
    assert forall|i: int| 2 <= i < n.len() implies cn.contains_key(#[trigger] n[i]) && cn[n[i]].0 == i by {
        if i < o.len() { assert(co.contains_key(o[i])); assert(o[i] != node); }
    }
    assert forall|m: BddNode| #[trigger] cn.contains_key(m) implies 2 <= cn[m].0 < n.len() && n[cn[m].0 as int] == m by {
        if m != node { assert(co.contains_key(m)); }
    }
    assert forall|k: (Term, Term, Term)| #[trigger] ite.contains_key(k) implies ite_entry_shape(n, k, ite[k]) by { assert(ite_entry_shape(o, k, ite[k])); }
    assert forall|k: (Term, Var, bool)| #[trigger] rc.contains_key(k) implies restrict_entry_shape(n, k, rc[k]) by { assert(restrict_entry_shape(o, k, rc[k])); }
}
pub proof fn lemma_memo_ext(o: Seq<BddNode>, n: Seq<BddNode>, co: Map<BddNode, Term>, ite: Map<(Term, Term, Term), Term>, rc: Map<(Term, Var, bool), Term>)
    requires core_ok(o, co, ite, rc), memo_ok(o, ite, rc), ext(o, n),
    ensures memo_ok(n, ite, rc),
{
    lemma_ext_entries(o, n);
    assert forall|k: (Term, Term, Term)| #[trigger] ite.contains_key(k) implies ite_entry_den(n, k, ite[k]) by { assert(ite_entry_shape(o, k, ite[k])); assert(ite_entry_den(o, k, ite[k])); }
    assert forall|k: (Term, Var, bool)| #[trigger] rc.contains_key(k) implies restrict_entry_den(n, k, rc[k]) by { assert(restrict_entry_shape(o, k, rc[k])); assert(restrict_entry_den(o, k, rc[k])); }
}
pub proof fn lemma_deps_push(o: Seq<BddNode>, n: Seq<BddNode>, vo: Seq<HashSet<Var>>, vn: Seq<HashSet<Var>>, node: BddNode)
    requires
        deps_ok(o, vo), n == o.push(node), node.lo.0 < o.len(), node.hi.0 < o.len(), o.len() >= 2,
        vn.len() == vo.len() + 1, forall|i: int| 0 <= i < vo.len() ==> vn[i] == vo[i],
        vn[o.len() as int]@ =~= supp(o, node.lo.0 as int).union(supp(o, node.hi.0 as int)).insert(node.var),
    ensures deps_ok(n, vn),
{
    assert(ext(o, n));
    assert(guard(n, o.len() as int));
    assert forall|i: int| 0 <= i < n.len() implies (#[trigger] vn[i])@ == supp(n, i) by {
        if i < o.len() { lemma_ext_supp(o, n, i); assert(vo[i]@ == supp(o, i)); }
        else {
            lemma_ext_supp(o, n, node.lo.0 as int); lemma_ext_supp(o, n, node.hi.0 as int);
            assert(supp(n, i) == supp(n, node.lo.0 as int).union(supp(n, node.hi.0 as int)).insert(node.var));
            assert(vn[i]@ =~= supp(n, i));
        }
    }
}
// the entry computed for a new inner node from the entries of its children (paths and depth; `mok` = the model-count
// component is right, which the caller establishes per configuration)
pub proof fn lemma_cc_entry(o: Seq<BddNode>, n: Seq<BddNode>, node: BddNode, cl: CountNode, ch: CountNode, e: CountNode)
    requires
        n == o.push(node), node.lo.0 < o.len(), node.hi.0 < o.len(), o.len() >= 2,
        cc_paths_ok(o, node.lo.0 as int, cl), cc_paths_ok(o, node.hi.0 as int, ch),
        e.1.cmodels == cl.1.cmodels + ch.1.cmodels, e.1.models == cl.1.models + ch.1.models,
        e.2 == (if cl.2 >= ch.2 { cl.2 } else { ch.2 }) + 1,
    ensures cc_paths_ok(n, o.len() as int, e),
{
    assert(ext(o, n));
    assert(guard(n, o.len() as int));
    lemma_ext_paths(o, n, node.lo.0 as int); lemma_ext_paths(o, n, node.hi.0 as int);
    lemma_ext_depth(o, n, node.lo.0 as int); lemma_ext_depth(o, n, node.hi.0 as int);
}
// model-count component of the entry `node` computes with ad-hoc model counting (and of what the memoised counter stores)
#[cfg(any(not(feature = "adhoccounting"), feature = "adhoccountmodels"))]
pub proof fn lemma_cc_models_entry(o: Seq<BddNode>, n: Seq<BddNode>, node: BddNode, cl: CountNode, ch: CountNode, e: CountNode)
    requires
        n == o.push(node), node.lo.0 < o.len(), node.hi.0 < o.len(), o.len() >= 2,
        cc_ok(o, node.lo.0 as int, cl), cc_ok(o, node.hi.0 as int, ch),
        e.0.cmodels == cl.0.cmodels * (if cl.2 > ch.2 { 1int } else { pow2(exp32(ch.2 - cl.2)) as int }) + ch.0.cmodels * (if cl.2 > ch.2 { pow2(exp32(cl.2 - ch.2)) as int } else { 1int }),
        e.0.models == cl.0.models * (if cl.2 > ch.2 { 1int } else { pow2(exp32(ch.2 - cl.2)) as int }) + ch.0.models * (if cl.2 > ch.2 { pow2(exp32(cl.2 - ch.2)) as int } else { 1int }),
    ensures cc_models_ok(n, o.len() as int, e.0),
{
    assert(ext(o, n));
    assert(guard(n, o.len() as int));
    lemma_ext_models(o, n, node.lo.0 as int); lemma_ext_models(o, n, node.hi.0 as int);
    lemma_ext_depth(o, n, node.lo.0 as int); lemma_ext_depth(o, n, node.hi.0 as int);
    vstd::arithmetic::power2::lemma2_to64();
    assert(pow2(0) == 1);
}
pub proof fn lemma_counts_push(o: Seq<BddNode>, n: Seq<BddNode>, co: Map<Term, CountNode>, cn: Map<Term, CountNode>, node: BddNode, e: CountNode, nt: Term)
    requires counts_ok(o, co), n == o.push(node), cn == co.insert(nt, e), cc_ok(n, o.len() as int, e), nt.0 == o.len(),
    ensures counts_ok(n, cn),
{
    assert(ext(o, n));
    assert forall|t: Term| #[trigger] cn.contains_key(t) implies t.0 < n.len() && cc_ok(n, t.0 as int, cn[t]) by {
        if t != nt {
            assert(co.contains_key(t));
            lemma_ext_paths(o, n, t.0 as int); lemma_ext_depth(o, n, t.0 as int); lemma_ext_models(o, n, t.0 as int);
        }
    }
    assert forall|t: Term| t.0 < n.len() implies #[trigger] cn.contains_key(t) || !counts_all_present() by {
        if t.0 < o.len() { if counts_all_present() { lemma_all_present(o, co, t); } } else { assert(t == nt); }
    }
    lemma_all_present_intro(n, cn);
}
// entries stay right under extension of the node table
pub proof fn lemma_counts_present_ext(o: Seq<BddNode>, n: Seq<BddNode>, cc: Map<Term, CountNode>)
    requires counts_present_ok(o, cc), ext(o, n),
    ensures counts_present_ok(n, cc),
{
    assert forall|t: Term| #[trigger] cc.contains_key(t) implies t.0 < n.len() && cc_ok(n, t.0 as int, cc[t]) by {
        lemma_ext_paths(o, n, t.0 as int); lemma_ext_depth(o, n, t.0 as int); lemma_ext_models(o, n, t.0 as int);
    }
}
#[cfg(feature = "adhoccounting")]
pub open spec fn counts_all_present() -> bool { true }
#[cfg(not(feature = "adhoccounting"))]
pub open spec fn counts_all_present() -> bool { false }
#[cfg(feature = "adhoccounting")]
pub proof fn lemma_all_present(nodes: Seq<BddNode>, cc: Map<Term, CountNode>, t: Term)
    requires counts_ok(nodes, cc), t.0 < nodes.len(), ensures cc.contains_key(t) {}
#[cfg(not(feature = "adhoccounting"))]
pub proof fn lemma_all_present(nodes: Seq<BddNode>, cc: Map<Term, CountNode>, t: Term)
    requires counts_ok(nodes, cc), t.0 < nodes.len(), counts_all_present(), ensures cc.contains_key(t) {}
#[cfg(feature = "adhoccounting")]
pub proof fn lemma_all_present_intro(nodes: Seq<BddNode>, cc: Map<Term, CountNode>)
    requires counts_present_ok(nodes, cc), forall|t: Term| t.0 < nodes.len() ==> #[trigger] cc.contains_key(t) || !counts_all_present(),
    ensures counts_ok(nodes, cc) {}
#[cfg(not(feature = "adhoccounting"))]
pub proof fn lemma_all_present_intro(nodes: Seq<BddNode>, cc: Map<Term, CountNode>)
    requires counts_present_ok(nodes, cc), ensures counts_ok(nodes, cc) {}
// memoised model counting is exact except in the documented configuration (C12)
#[cfg(all(feature = "adhoccounting", not(feature = "adhoccountmodels")))]
pub open spec fn models_memo_exact() -> bool { false }
#[cfg(any(not(feature = "adhoccounting"), feature = "adhoccountmodels"))]
pub open spec fn models_memo_exact() -> bool { true }
pub open spec fn is_models(nodes: Seq<BddNode>, t: int, c: ModelCounts) -> bool { c.cmodels == models_spec(nodes, t).0 && c.models == models_spec(nodes, t).1 }
pub open spec fn is_paths(nodes: Seq<BddNode>, t: int, c: ModelCounts) -> bool { c.cmodels == paths_spec(nodes, t).0 && c.models == paths_spec(nodes, t).1 }
impl Bdd {
    pub open spec fn wf_core(&self) -> bool { core_ok(self.nodes@, self.cache@, self.ite_cache@, self.restrict_cache@) }
    pub open spec fn wf_memo(&self) -> bool { memo_ok(self.nodes@, self.ite_cache@, self.restrict_cache@) }
    #[cfg(feature = "variablelist")]
    pub open spec fn wf_deps(&self) -> bool { deps_ok(self.nodes@, self.var_deps@) }
    #[cfg(not(feature = "variablelist"))]
    pub open spec fn wf_deps(&self) -> bool { true }
    pub open spec fn wf_counts(&self) -> bool { counts_ok(self.nodes@, self.count_cache@) }
    // ---- C19: producer side of the streaming mirror
    #[cfg(feature = "frontend")]
    pub open spec fn wf_chan(&self) -> bool { self.producer_inv() }
    #[cfg(not(feature = "frontend"))]
    pub open spec fn wf_chan(&self) -> bool { true }

    pub open spec fn wf(&self) -> bool { self.wf_core() && self.wf_memo() && self.wf_deps() && self.wf_counts() && self.wf_chan() }

    #[cfg(feature = "variablelist")]
    pub open spec fn same_deps(&self, o: Bdd) -> bool { self.var_deps == o.var_deps }
    #[cfg(not(feature = "variablelist"))]
    pub open spec fn same_deps(&self, o: Bdd) -> bool { true }
    #[cfg(feature = "frontend")]
    pub open spec fn same_chan(&self, o: Bdd) -> bool { self.sender == o.sender && self.receiver == o.receiver && self.vx_sent@ == o.vx_sent@ && self.vx_recvd@ == o.vx_recvd@ }
    #[cfg(not(feature = "frontend"))]
    pub open spec fn same_chan(&self, o: Bdd) -> bool { true }
    // frame of the `&self` methods that only touch the (former RefCell) count table
    pub open spec fn same_but_counts(&self, o: Bdd) -> bool {
        self.nodes == o.nodes && self.cache == o.cache && self.ite_cache == o.ite_cache && self.restrict_cache == o.restrict_cache && self.same_deps(o) && self.same_chan(o)
    }
    #[cfg(feature = "variablelist")]
    pub open spec fn deps_empty(&self) -> bool { self.var_deps@.len() == 0 }
    #[cfg(not(feature = "variablelist"))]
    pub open spec fn deps_empty(&self) -> bool { true }
    #[cfg(feature = "frontend")]
    pub open spec fn chan_none(&self) -> bool { self.sender.is_none() && self.receiver.is_none() }
    #[cfg(not(feature = "frontend"))]
    pub open spec fn chan_none(&self) -> bool { true }
    // what serde leaves after an import: node table and unique table as exported (C06), every #[serde(skip)] field empty
    pub open spec fn wf_imported(&self) -> bool {
        &&& core_ok(self.nodes@, self.cache@, Map::<(Term, Term, Term), Term>::empty(), Map::<(Term, Var, bool), Term>::empty())
        &&& self.ite_cache@ =~= Map::<(Term, Term, Term), Term>::empty() && self.restrict_cache@ =~= Map::<(Term, Var, bool), Term>::empty()
        &&& self.deps_empty() && self.count_cache@ =~= Map::<Term, CountNode>::empty() && self.chan_none()
    }
    pub open spec fn active_cnt(&self, var: Var, tl: Seq<Term>, k: int) -> int
        decreases k
    { if k <= 0 { 0 } else { self.active_cnt(var, tl, k - 1) + if supp(self.nodes@, tl[var.0 as int].0 as int).contains(Var((k - 1) as usize)) { 1int } else { 0int } } }
    pub open spec fn impact_cnt(&self, var: Var, tl: Seq<Term>, k: int) -> int
        decreases k
    { if k <= 0 { 0 } else { self.impact_cnt(var, tl, k - 1) + if supp(self.nodes@, tl[k - 1].0 as int).contains(var) { 1int } else { 0int } } }
}
