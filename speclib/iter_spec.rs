// C20: interpretation iterators as odometers.  Pure specs + lemmas; no repo code.
use vstd::arithmetic::power2::*;


pub open spec fn und(t: Term) -> bool { t.0 > 1 }
// undecided positions in [lo, hi), in descending order
pub open spec fn und_range(t: Seq<Term>, lo: int, hi: int) -> Seq<usize>
    decreases hi - lo
{
    if lo >= hi { Seq::empty() } else { let r = und_range(t, lo + 1, hi); if und(t[lo]) { r.push(lo as usize) } else { r } }
}
pub open spec fn idx_ok(idx: Seq<usize>, n: int) -> bool {
    &&& forall|j: int| 0 <= j < idx.len() ==> (#[trigger] idx[j]) < n
    &&& forall|i: int, j: int| 0 <= i < j < idx.len() ==> idx[i] != idx[j]
}
// idx lists exactly the undecided positions of t, strictly descending
pub open spec fn idx_und(idx: Seq<usize>, t: Seq<Term>) -> bool {
    &&& forall|j: int| 0 <= j < idx.len() ==> (#[trigger] idx[j]) < t.len() && und(t[idx[j] as int])
    &&& forall|i: int, j: int| 0 <= i < j < idx.len() ==> idx[i] > idx[j]
    &&& forall|p: int| 0 <= p < t.len() && und(t[p]) ==> exists|j: int| 0 <= j < idx.len() && #[trigger] idx[j] == p
}
pub proof fn lemma_und_range(t: Seq<Term>, lo: int, hi: int)
    requires 0 <= lo <= hi <= t.len(), hi <= usize::MAX,
    ensures
        forall|j: int| 0 <= j < und_range(t, lo, hi).len() ==> lo <= (#[trigger] und_range(t, lo, hi)[j]) < hi && und(t[und_range(t, lo, hi)[j] as int]),
        forall|i: int, j: int| 0 <= i < j < und_range(t, lo, hi).len() ==> und_range(t, lo, hi)[i] > und_range(t, lo, hi)[j],
        forall|p: int| lo <= p < hi && und(t[p]) ==> exists|j: int| 0 <= j < und_range(t, lo, hi).len() && #[trigger] und_range(t, lo, hi)[j] == p,
    decreases hi - lo
{
    if lo < hi {
        lemma_und_range(t, lo + 1, hi);
        let r = und_range(t, lo + 1, hi);
        let s = und_range(t, lo, hi);
        if und(t[lo]) {
            assert(s == r.push(lo as usize));
            assert forall|p: int| lo <= p < hi && und(t[p]) implies exists|j: int| 0 <= j < s.len() && #[trigger] s[j] == p by {
                if p == lo { assert(s[r.len() as int] == lo); } else { let j = choose|j: int| 0 <= j < r.len() && #[trigger] r[j] == p; assert(s[j] == p); }
            }
        } else {
            assert(s == r);
            assert forall|p: int| lo <= p < hi && und(t[p]) implies exists|j: int| 0 <= j < s.len() && #[trigger] s[j] == p by {
                let j = choose|j: int| 0 <= j < r.len() && #[trigger] r[j] == p; assert(s[j] == p);
            }
        }
    }
}
pub proof fn lemma_idx_und_ok(idx: Seq<usize>, t: Seq<Term>)
    requires idx_und(idx, t), ensures idx_ok(idx, t.len() as int) {}

// ------------------------------------------------------------------ two-valued: binary counter, idx[0] least significant
pub open spec fn val2(c: Seq<Term>, idx: Seq<usize>, k: int) -> nat
    decreases k
{
    if k <= 0 { 0 } else { val2(c, idx, k - 1) + (if c[idx[k - 1] as int].0 == 1 { pow2((k - 1) as nat) } else { 0 }) }
}
pub open spec fn bits_ok(c: Seq<Term>, idx: Seq<usize>) -> bool {
    forall|j: int| 0 <= j < idx.len() ==> (#[trigger] c[idx[j] as int]).0 <= 1
}
pub open spec fn optv(o: Option<Vec<Term>>) -> Option<Seq<Term>> { match o { Some(v) => Some(v@), None => None } }
// d agrees with c at every position that is not listed in idx ("never alters a decided position")
pub open spec fn same_outside(c: Seq<Term>, d: Seq<Term>, idx: Seq<usize>) -> bool {
    c.len() == d.len() && forall|p: int| 0 <= p < c.len() && (forall|j: int| 0 <= j < idx.len() ==> idx[j] != p) ==> #[trigger] d[p] == c[p]
}
// c is a total completion of t: decided positions kept, undecided ones are TOP/BOT
pub open spec fn completion_of(c: Seq<Term>, t: Seq<Term>) -> bool {
    c.len() == t.len() && forall|p: int| 0 <= p < t.len() ==> if und(t[p]) { (#[trigger] c[p]).0 <= 1 } else { c[p] == t[p] }
}
pub proof fn lemma_val2_all_top(c: Seq<Term>, idx: Seq<usize>, k: int)
    requires 0 <= k <= idx.len(), forall|j: int| 0 <= j < k ==> c[#[trigger] idx[j] as int].0 == 1,
    ensures val2(c, idx, k) + 1 == pow2(k as nat)
    decreases k
{
    if k > 0 { lemma_val2_all_top(c, idx, k - 1); lemma_pow2_unfold(k as nat); } else { lemma2_to64(); }
}
pub proof fn lemma_val2_all_bot(c: Seq<Term>, idx: Seq<usize>, k: int)
    requires 0 <= k <= idx.len(), forall|j: int| 0 <= j < k ==> c[#[trigger] idx[j] as int].0 != 1,
    ensures val2(c, idx, k) == 0
    decreases k
{ if k > 0 { lemma_val2_all_bot(c, idx, k - 1); } }
pub proof fn lemma_val2_high(c: Seq<Term>, d: Seq<Term>, idx: Seq<usize>, lo: int, k: int)
    requires 0 <= lo <= k <= idx.len(), forall|j: int| lo <= j < k ==> c[#[trigger] idx[j] as int] == d[idx[j] as int],
    ensures val2(d, idx, k) - val2(d, idx, lo) == val2(c, idx, k) - val2(c, idx, lo)
    decreases k
{ if k > lo { lemma_val2_high(c, d, idx, lo, k - 1); } }
pub proof fn lemma_val2_bound(c: Seq<Term>, idx: Seq<usize>, k: int)
    requires 0 <= k <= idx.len(),
    ensures val2(c, idx, k) < pow2(k as nat)
    decreases k
{ if k > 0 { lemma_val2_bound(c, idx, k - 1); lemma_pow2_unfold(k as nat); } else { lemma2_to64(); } }
// the counter value determines the bits: two bit vectors with the same value agree on every listed position
pub proof fn lemma_val2_inj(c: Seq<Term>, d: Seq<Term>, idx: Seq<usize>, k: int)
    requires 0 <= k <= idx.len(), bits_ok(c, idx), bits_ok(d, idx), val2(c, idx, k) == val2(d, idx, k),
    ensures forall|j: int| 0 <= j < k ==> c[#[trigger] idx[j] as int] == d[idx[j] as int]
    decreases k
{
    if k > 0 {
        lemma_val2_bound(c, idx, k - 1); lemma_val2_bound(d, idx, k - 1);
        let bc = c[idx[k - 1] as int]; let bd = d[idx[k - 1] as int];
        assert(bc.0 <= 1 && bd.0 <= 1);
        if bc.0 != bd.0 { assert(false); }
        assert(bc == bd);
        lemma_val2_inj(c, d, idx, k - 1);
    }
}
// the step of the two-valued iterator: binary successor over idx, everything else untouched
pub open spec fn step2(c: Seq<Term>, d: Option<Seq<Term>>, idx: Seq<usize>) -> bool {
    let k = idx.len() as int;
    if val2(c, idx, k) + 1 == pow2(k as nat) { d.is_none() }
    else { d.is_some() && same_outside(c, d.unwrap(), idx) && bits_ok(d.unwrap(), idx) && val2(d.unwrap(), idx, k) == val2(c, idx, k) + 1 }
}
impl TwoValuedInterpretationsIterator {
    pub open spec fn inv(&self) -> bool {
        match self.current { Some(c) => idx_ok(self.indexes@, c@.len() as int) && bits_ok(c@, self.indexes@), None => true }
    }
}
// enumeration lemma (C20, two-valued): every total completion c of t is reached - its counter value v = val2(c) lies in
// [0, 2^k) and the iterator, which starts at value 0 and adds exactly one per step until 2^k - 1, yields at step v a vector
// with the same value, the same decided positions, hence (lemma_val2_inj) the same vector; distinct steps have distinct values.
pub proof fn lemma_completion_reached(c: Seq<Term>, d: Seq<Term>, t: Seq<Term>, idx: Seq<usize>)
    requires idx_und(idx, t), completion_of(c, t), completion_of(d, t), val2(c, idx, idx.len() as int) == val2(d, idx, idx.len() as int),
    ensures c =~= d
{
    assert(bits_ok(c, idx)); assert(bits_ok(d, idx));
    lemma_val2_inj(c, d, idx, idx.len() as int);
    assert forall|p: int| 0 <= p < t.len() implies c[p] == d[p] by {
        if und(t[p]) { let j = choose|j: int| 0 <= j < idx.len() && #[trigger] idx[j] == p; assert(c[idx[j] as int] == d[idx[j] as int]); }
    }
}

// ------------------------------------------------------------------ three-valued: ternary odometer over digits {0,1,2}
pub open spec fn pow3(k: nat) -> nat decreases k { if k == 0 { 1 } else { 3 * pow3((k - 1) as nat) } }
pub open spec fn val3(v: Seq<usize>, k: int) -> nat
    decreases k
{ if k <= 0 { 0 } else { val3(v, k - 1) + (v[k - 1] as nat) * pow3((k - 1) as nat) } }
pub open spec fn digits_ok(v: Seq<usize>) -> bool { forall|j: int| 0 <= j < v.len() ==> (#[trigger] v[j]) <= 2 }
pub proof fn lemma_pow3_pos(n: nat) ensures pow3(n) > 0 decreases n { if n > 0 { lemma_pow3_pos((n - 1) as nat); } }
pub proof fn lemma_val3_all2(v: Seq<usize>, k: int)
    requires 0 <= k <= v.len(), forall|j: int| 0 <= j < k ==> (#[trigger] v[j]) == 2,
    ensures val3(v, k) + 1 == pow3(k as nat)
    decreases k
{ if k > 0 { lemma_val3_all2(v, k - 1); assert((v[k - 1] as nat) * pow3((k - 1) as nat) == 2 * pow3((k - 1) as nat)) by (nonlinear_arith) requires v[k - 1] == 2; } }
pub proof fn lemma_val3_all0(v: Seq<usize>, k: int)
    requires 0 <= k <= v.len(), forall|j: int| 0 <= j < k ==> (#[trigger] v[j]) == 0,
    ensures val3(v, k) == 0
    decreases k
{ if k > 0 { lemma_val3_all0(v, k - 1); assert((v[k - 1] as nat) * pow3((k - 1) as nat) == 0) by (nonlinear_arith) requires v[k - 1] == 0; } }
pub proof fn lemma_val3_high(c: Seq<usize>, d: Seq<usize>, lo: int, k: int)
    requires 0 <= lo <= k <= c.len(), c.len() == d.len(), forall|j: int| lo <= j < k ==> (#[trigger] c[j]) == d[j],
    ensures val3(d, k) - val3(d, lo) == val3(c, k) - val3(c, lo)
    decreases k
{ if k > lo { lemma_val3_high(c, d, lo, k - 1); } }
pub proof fn lemma_val3_bound(v: Seq<usize>, k: int)
    requires 0 <= k <= v.len(), digits_ok(v),
    ensures val3(v, k) < pow3(k as nat)
    decreases k
{
    if k > 0 {
        lemma_val3_bound(v, k - 1); lemma_pow3_pos((k - 1) as nat);
        let p = pow3((k - 1) as nat);
        assert(v[k - 1] <= 2);
        assert((v[k - 1] as nat) * p <= 2 * p) by (nonlinear_arith) requires v[k - 1] <= 2, p > 0;
    }
}
pub proof fn lemma_val3_inj(c: Seq<usize>, d: Seq<usize>, k: int)
    requires 0 <= k <= c.len(), c.len() == d.len(), digits_ok(c), digits_ok(d), val3(c, k) == val3(d, k),
    ensures forall|j: int| 0 <= j < k ==> (#[trigger] c[j]) == d[j]
    decreases k
{
    if k > 0 {
        lemma_val3_bound(c, k - 1); lemma_val3_bound(d, k - 1); lemma_pow3_pos((k - 1) as nat);
        let p = pow3((k - 1) as nat);
        let a = c[k - 1]; let b = d[k - 1];
        if a != b {
            if a < b { assert((b as nat) * p >= (a as nat) * p + p) by (nonlinear_arith) requires a < b, p > 0; }
            else { assert((a as nat) * p >= (b as nat) * p + p) by (nonlinear_arith) requires b < a, p > 0; }
            assert(false);
        }
        lemma_val3_inj(c, d, k - 1);
    }
}
// one decrement step of the odometer at position p: digit p decremented, digits below p reset to 2
pub proof fn lemma_val3_step(c: Seq<usize>, d: Seq<usize>, p: int)
    requires 0 <= p < c.len(), c.len() == d.len(), digits_ok(c), c[p] > 0, d[p] == c[p] - 1,
        forall|j: int| 0 <= j < p ==> (#[trigger] c[j]) == 0, forall|j: int| 0 <= j < p ==> (#[trigger] d[j]) == 2,
        forall|j: int| p < j < c.len() ==> (#[trigger] d[j]) == c[j],
    ensures val3(d, c.len() as int) + 1 == val3(c, c.len() as int), digits_ok(d),
{
    let n = c.len() as int;
    lemma_val3_all0(c, p);
    lemma_val3_all2(d, p);
    lemma_val3_high(c, d, p + 1, n);
    assert((c[p] as nat) * pow3(p as nat) == (d[p] as nat) * pow3(p as nat) + pow3(p as nat)) by (nonlinear_arith) requires c[p] == d[p] + 1;
    assert(val3(c, p + 1) == val3(c, p) + (c[p] as nat) * pow3(p as nat));
    assert(val3(d, p + 1) == val3(d, p) + (d[p] as nat) * pow3(p as nat));
    assert forall|j: int| 0 <= j < d.len() implies (#[trigger] d[j]) <= 2 by { if j < p { } else if j == p { } else { assert(d[j] == c[j]); } }
}
// decoding of an odometer state into an interpretation: digit 0 -> BOT, 1 -> TOP, 2 -> the original (undecided) handle
pub open spec fn dig(d: usize, o: Term) -> Term { if d == 0 { Term(0) } else if d == 1 { Term(1) } else { o } }
pub open spec fn dec3(orig: Seq<Term>, idx: Seq<usize>, c: Seq<usize>, k: int) -> Seq<Term>
    decreases k
{ if k <= 0 { orig } else { dec3(orig, idx, c, k - 1).update(idx[k - 1] as int, dig(c[k - 1], orig[idx[k - 1] as int])) } }
pub proof fn lemma_dec3(orig: Seq<Term>, idx: Seq<usize>, c: Seq<usize>, k: int)
    requires idx_ok(idx, orig.len() as int), 0 <= k <= idx.len(), c.len() == idx.len(),
    ensures
        dec3(orig, idx, c, k).len() == orig.len(),
        forall|j: int| 0 <= j < k ==> dec3(orig, idx, c, k)[#[trigger] idx[j] as int] == dig(c[j], orig[idx[j] as int]),
        forall|p: int| 0 <= p < orig.len() && (forall|j: int| 0 <= j < k ==> idx[j] != p) ==> #[trigger] dec3(orig, idx, c, k)[p] == orig[p],
    decreases k
{
    if k > 0 {
        lemma_dec3(orig, idx, c, k - 1);
        let prev = dec3(orig, idx, c, k - 1);
        assert forall|j: int| 0 <= j < k implies dec3(orig, idx, c, k)[#[trigger] idx[j] as int] == dig(c[j], orig[idx[j] as int]) by {
            if j < k - 1 { assert(idx[j] != idx[k - 1]); }
        }
    }
}
// all digits 2 decodes to the interpretation itself ("starting with the interpretation itself")
pub proof fn lemma_dec3_all2(orig: Seq<Term>, idx: Seq<usize>, c: Seq<usize>)
    requires idx_ok(idx, orig.len() as int), c.len() == idx.len(), forall|j: int| 0 <= j < c.len() ==> (#[trigger] c[j]) == 2,
    ensures dec3(orig, idx, c, idx.len() as int) =~= orig
{
    lemma_dec3(orig, idx, c, idx.len() as int);
    let r = dec3(orig, idx, c, idx.len() as int);
    assert forall|p: int| 0 <= p < orig.len() implies r[p] == orig[p] by {
        if exists|j: int| 0 <= j < idx.len() && idx[j] == p { let j = choose|j: int| 0 <= j < idx.len() && idx[j] == p; assert(r[idx[j] as int] == dig(c[j], orig[idx[j] as int])); }
    }
}
// decoding is injective on the odometer states when the listed positions are undecided in the original:
// two refinements are equal only if the states are equal ("each once")
pub proof fn lemma_dec3_inj(orig: Seq<Term>, idx: Seq<usize>, c: Seq<usize>, d: Seq<usize>)
    requires idx_und(idx, orig), c.len() == idx.len(), d.len() == idx.len(), digits_ok(c), digits_ok(d),
        dec3(orig, idx, c, idx.len() as int) == dec3(orig, idx, d, idx.len() as int),
    ensures c =~= d
{
    lemma_dec3(orig, idx, c, idx.len() as int); lemma_dec3(orig, idx, d, idx.len() as int);
    assert forall|j: int| 0 <= j < c.len() implies c[j] == d[j] by {
        let o = orig[idx[j] as int];
        assert(und(o));
        assert(dec3(orig, idx, c, idx.len() as int)[idx[j] as int] == dig(c[j], o));
        assert(dec3(orig, idx, d, idx.len() as int)[idx[j] as int] == dig(d[j], o));
        assert(c[j] <= 2 && d[j] <= 2);
    }
}
// r refines t: decided positions kept, undecided ones either kept or decided
pub open spec fn refinement_of(r: Seq<Term>, t: Seq<Term>) -> bool {
    r.len() == t.len() && forall|p: int| 0 <= p < t.len() ==> if und(t[p]) { (#[trigger] r[p]).0 <= 1 || r[p] == t[p] } else { r[p] == t[p] }
}
// every refinement of orig is the decoding of some odometer state (surjectivity; with the bound 3^k and the unit steps
// from 3^k - 1 down to 0 each state, hence each refinement, is visited exactly once)
pub open spec fn enc3(r: Seq<Term>, idx: Seq<usize>) -> Seq<usize> { Seq::new(idx.len(), |j: int| if r[idx[j] as int].0 == 0 { 0usize } else if r[idx[j] as int].0 == 1 { 1usize } else { 2usize }) }
pub proof fn lemma_refinement_reached(r: Seq<Term>, orig: Seq<Term>, idx: Seq<usize>)
    requires idx_und(idx, orig), refinement_of(r, orig),
    ensures digits_ok(enc3(r, idx)), dec3(orig, idx, enc3(r, idx), idx.len() as int) =~= r
{
    let c = enc3(r, idx);
    lemma_dec3(orig, idx, c, idx.len() as int);
    let d = dec3(orig, idx, c, idx.len() as int);
    assert forall|p: int| 0 <= p < orig.len() implies d[p] == r[p] by {
        if und(orig[p]) {
            let j = choose|j: int| 0 <= j < idx.len() && #[trigger] idx[j] == p;
            assert(d[idx[j] as int] == dig(c[j], orig[idx[j] as int]));
        } else {
            assert forall|j: int| 0 <= j < idx.len() implies idx[j] != p by { assert(und(orig[idx[j] as int])); }
        }
    }
}
pub open spec fn optu(o: Option<Vec<usize>>) -> Option<Seq<usize>> { match o { Some(v) => Some(v@), None => None } }
impl ThreeValuedInterpretationsIterator {
    pub open spec fn inv(&self) -> bool {
        &&& idx_ok(self.indexes@, self.original@.len() as int)
        &&& match self.current { Some(c) => c@.len() == self.indexes@.len() && digits_ok(c@), None => true }
    }
    // what `next` returns for a state
    pub open spec fn decoded(&self) -> Option<Seq<Term>> {
        match self.current { Some(c) => Some(dec3(self.original@, self.indexes@, c@, self.indexes@.len() as int)), None => None }
    }
}
// ternary predecessor: the step of the three-valued iterator
pub open spec fn step3(c: Seq<usize>, d: Option<Seq<usize>>) -> bool {
    if val3(c, c.len() as int) == 0 { d.is_none() }
    else { d.is_some() && d.unwrap().len() == c.len() && digits_ok(d.unwrap()) && val3(d.unwrap(), c.len() as int) + 1 == val3(c, c.len() as int) }
}

// ------------------------------------------------------------------ whole runs (C20): the composition of the step contracts
// y[i] is what the (i+1)-th call of TwoValuedInterpretationsIterator::next returns when the iterator was made by new(t):
// the first call yields the stored all-BOT completion (contracts of new / next: counter value 0), every later call
// satisfies step2 (binary successor, None after the all-TOP vector, None for ever after)
pub open spec fn run2(y: Seq<Option<Seq<Term>>>, t: Seq<Term>, idx: Seq<usize>) -> bool {
    &&& y.len() > 0
    &&& y[0].is_some() && completion_of(y[0].unwrap(), t) && val2(y[0].unwrap(), idx, idx.len() as int) == 0
    &&& forall|i: int| 0 <= i < y.len() - 1 ==> ((#[trigger] y[i]).is_some() ==> step2(y[i].unwrap(), y[i + 1], idx)) && (y[i].is_none() ==> y[i + 1].is_none())
}
pub proof fn lemma_step2_completion(c: Seq<Term>, d: Seq<Term>, t: Seq<Term>, idx: Seq<usize>)
    requires idx_und(idx, t), completion_of(c, t), same_outside(c, d, idx), bits_ok(d, idx),
    ensures completion_of(d, t)
{
    assert forall|p: int| 0 <= p < t.len() implies if und(t[p]) { (#[trigger] d[p]).0 <= 1 } else { d[p] == t[p] } by {
        if und(t[p]) { let j = choose|j: int| 0 <= j < idx.len() && #[trigger] idx[j] == p; assert(d[idx[j] as int].0 <= 1); }
        else { assert forall|j: int| 0 <= j < idx.len() implies idx[j] != p by { assert(und(t[idx[j] as int])); } }
    }
}
// the i-th answer: for i < 2^k the completion with counter value i, afterwards None
pub proof fn lemma_run2_at(y: Seq<Option<Seq<Term>>>, t: Seq<Term>, idx: Seq<usize>, i: int)
    requires run2(y, t, idx), idx_und(idx, t), 0 <= i < y.len(),
    ensures
        i < pow2(idx.len() as nat) ==> y[i].is_some() && completion_of(y[i].unwrap(), t) && val2(y[i].unwrap(), idx, idx.len() as int) == i,
        i >= pow2(idx.len() as nat) ==> y[i].is_none(),
    decreases i
{
    let k = idx.len() as int;
    if i == 0 { lemma_val2_bound(y[0].unwrap(), idx, k); }
    else {
        lemma_run2_at(y, t, idx, i - 1);
        let p = y[i - 1];
        assert((p.is_some() ==> step2(p.unwrap(), y[i - 1 + 1], idx)) && (p.is_none() ==> y[i - 1 + 1].is_none()));
        if i - 1 < pow2(k as nat) {
            let c = p.unwrap();
            if i < pow2(k as nat) { lemma_step2_completion(c, y[i].unwrap(), t, idx); }
        }
    }
}
// every total completion of t is answered exactly once: at call number val2(c) + 1 and at no other call
pub proof fn lemma_run2_exact(y: Seq<Option<Seq<Term>>>, t: Seq<Term>, idx: Seq<usize>, c: Seq<Term>)
    requires run2(y, t, idx), idx_und(idx, t), completion_of(c, t),
    ensures
        val2(c, idx, idx.len() as int) < pow2(idx.len() as nat),
        forall|i: int| 0 <= i < y.len() ==> ((#[trigger] y[i]) == Some(c) <==> i == val2(c, idx, idx.len() as int)),
{
    let k = idx.len() as int;
    let v = val2(c, idx, k) as int;
    lemma_val2_bound(c, idx, k);
    assert forall|i: int| 0 <= i < y.len() implies ((#[trigger] y[i]) == Some(c) <==> i == v) by {
        lemma_run2_at(y, t, idx, i);
        if i == v { lemma_completion_reached(y[i].unwrap(), c, t, idx); }
    }
}
// the odometer states of ThreeValuedInterpretationsIterator: s[0] is the all-2 state made by new (it decodes to the
// interpretation itself), every later call of next moves by step3 (ternary predecessor, None after the all-0 state)
pub open spec fn run3(s: Seq<Option<Seq<usize>>>, k: int) -> bool {
    &&& s.len() > 0
    &&& s[0].is_some() && s[0].unwrap().len() == k && forall|j: int| 0 <= j < k ==> (#[trigger] s[0].unwrap()[j]) == 2
    &&& forall|i: int| 0 <= i < s.len() - 1 ==> ((#[trigger] s[i]).is_some() ==> step3(s[i].unwrap(), s[i + 1])) && (s[i].is_none() ==> s[i + 1].is_none())
}
pub proof fn lemma_run3_at(s: Seq<Option<Seq<usize>>>, k: int, i: int)
    requires run3(s, k), 0 <= k, 0 <= i < s.len(),
    ensures
        i < pow3(k as nat) ==> s[i].is_some() && s[i].unwrap().len() == k && digits_ok(s[i].unwrap()) && val3(s[i].unwrap(), k) + i + 1 == pow3(k as nat),
        i >= pow3(k as nat) ==> s[i].is_none(),
    decreases i
{
    lemma_pow3_pos(k as nat);
    if i == 0 { lemma_val3_all2(s[0].unwrap(), k); }
    else {
        lemma_run3_at(s, k, i - 1);
        let p = s[i - 1];
        assert((p.is_some() ==> step3(p.unwrap(), s[i - 1 + 1])) && (p.is_none() ==> s[i - 1 + 1].is_none()));
    }
}
// every refinement r of the interpretation is answered exactly once (next returns the decoding of the state)
pub proof fn lemma_run3_exact(s: Seq<Option<Seq<usize>>>, orig: Seq<Term>, idx: Seq<usize>, r: Seq<Term>)
    requires run3(s, idx.len() as int), idx_und(idx, orig), refinement_of(r, orig),
    ensures
        val3(enc3(r, idx), idx.len() as int) < pow3(idx.len() as nat),
        forall|i: int| 0 <= i < s.len() ==> (((#[trigger] s[i]).is_some() && dec3(orig, idx, s[i].unwrap(), idx.len() as int) == r) <==> i + 1 + val3(enc3(r, idx), idx.len() as int) == pow3(idx.len() as nat)),
{
    let k = idx.len() as int;
    let e = enc3(r, idx);
    lemma_refinement_reached(r, orig, idx);
    lemma_val3_bound(e, k);
    assert forall|i: int| 0 <= i < s.len() implies (((#[trigger] s[i]).is_some() && dec3(orig, idx, s[i].unwrap(), k) == r) <==> i + 1 + val3(e, k) == pow3(k as nat)) by {
        lemma_run3_at(s, k, i);
        if s[i].is_some() {
            let c = s[i].unwrap();
            if dec3(orig, idx, c, k) == r { lemma_dec3_inj(orig, idx, c, e); }
            if i + 1 + val3(e, k) == pow3(k as nat) { lemma_val3_inj(c, e, k); assert(c =~= e); }
        }
    }
}
