// C10: the semantics does not depend on how the statements are numbered.  pi maps an old index to the new one, sg is its inverse.
// fs2 = ren_fs(fs, pi, sg) is the same ADF under the new numbering; an interpretation v becomes ren_v(v, sg).
pub open spec fn bij(pi: Seq<int>, sg: Seq<int>, n: int) -> bool {
    &&& pi.len() == n && sg.len() == n && 0 <= n < usize::MAX
    &&& forall|i: int| 0 <= i < n ==> 0 <= #[trigger] pi[i] < n && sg[pi[i]] == i
    &&& forall|j: int| 0 <= j < n ==> 0 <= #[trigger] sg[j] < n && pi[sg[j]] == j
}
// the old assignment that a new assignment a2 stands for
pub open spec fn ren_asg(a2: Asg, pi: Seq<int>) -> Asg { |x: usize| if (x as int) < pi.len() { a2(pi[x as int] as usize) } else { a2(x) } }
pub open spec fn ren_bf(f: BF, pi: Seq<int>) -> BF { |a2: Asg| f(ren_asg(a2, pi)) }
pub open spec fn ren_fs(fs: Seq<BF>, pi: Seq<int>, sg: Seq<int>) -> Seq<BF> { Seq::new(fs.len(), |j: int| ren_bf(fs[sg[j]], pi)) }
pub open spec fn ren_v<T>(v: Seq<T>, sg: Seq<int>) -> Seq<T> { Seq::new(v.len(), |j: int| v[sg[j]]) }

pub proof fn lemma_ren_asg_inv(a: Asg, pi: Seq<int>, sg: Seq<int>, n: int)
    requires bij(pi, sg, n),
    ensures ren_asg(ren_asg(a, sg), pi) == a
{
    assert forall|x: usize| #[trigger] ren_asg(ren_asg(a, sg), pi)(x) == a(x) by {
        if (x as int) < n { let y = pi[x as int]; assert(sg[y] == x as int); assert(ren_asg(a, sg)(y as usize) == a(sg[y] as usize)); }
    }
    assert(ren_asg(ren_asg(a, sg), pi) =~= a);
}
pub proof fn lemma_ren_ovrv(a2: Asg, v: Seq<Option<bool>>, pi: Seq<int>, sg: Seq<int>, n: int)
    requires bij(pi, sg, n), v.len() == n,
    ensures ren_asg(ovrv(a2, ren_v(v, sg)), pi) == ovrv(ren_asg(a2, pi), v)
{
    let v2 = ren_v(v, sg);
    assert forall|x: usize| #[trigger] ren_asg(ovrv(a2, v2), pi)(x) == ovrv(ren_asg(a2, pi), v)(x) by {
        if (x as int) < n { let y = pi[x as int]; assert(sg[y] == x as int); assert(v2[y] == v[sg[y]]); }
    }
    assert(ren_asg(ovrv(a2, v2), pi) =~= ovrv(ren_asg(a2, pi), v));
}
pub proof fn lemma_ren_cofv(f: BF, v: Seq<Option<bool>>, pi: Seq<int>, sg: Seq<int>, n: int)
    requires bij(pi, sg, n), v.len() == n,
    ensures cofv(ren_bf(f, pi), ren_v(v, sg)) == ren_bf(cofv(f, v), pi)
{
    assert forall|a2: Asg| #[trigger] cofv(ren_bf(f, pi), ren_v(v, sg))(a2) == ren_bf(cofv(f, v), pi)(a2) by { lemma_ren_ovrv(a2, v, pi, sg, n); }
    assert(cofv(ren_bf(f, pi), ren_v(v, sg)) =~= ren_bf(cofv(f, v), pi));
}
pub proof fn lemma_ren_const(g: BF, c: bool, pi: Seq<int>, sg: Seq<int>, n: int)
    requires bij(pi, sg, n),
    ensures (ren_bf(g, pi) == bf_const(c)) <==> (g == bf_const(c))
{
    if g == bf_const(c) {
        assert forall|a2: Asg| #[trigger] ren_bf(g, pi)(a2) == bf_const(c)(a2) by { law_const_eval(c, ren_asg(a2, pi)); law_const_eval(c, a2); }
        assert(ren_bf(g, pi) =~= bf_const(c));
    }
    if ren_bf(g, pi) == bf_const(c) {
        assert forall|a: Asg| #[trigger] g(a) == bf_const(c)(a) by {
            lemma_ren_asg_inv(a, pi, sg, n);
            assert(ren_bf(g, pi)(ren_asg(a, sg)) == g(ren_asg(ren_asg(a, sg), pi)));
            law_const_eval(c, ren_asg(a, sg)); law_const_eval(c, a);
        }
        assert(g =~= bf_const(c));
    }
}
pub proof fn lemma_ren_gamma(fs: Seq<BF>, v: Seq<Option<bool>>, pi: Seq<int>, sg: Seq<int>, j: int)
    requires bij(pi, sg, fs.len() as int), v.len() == fs.len(), 0 <= j < fs.len(),
    ensures gamma_at(ren_fs(fs, pi, sg), ren_v(v, sg), j) == gamma_at(fs, v, sg[j])
{
    let n = fs.len() as int;
    lemma_ren_cofv(fs[sg[j]], v, pi, sg, n);
    lemma_ren_const(cofv(fs[sg[j]], v), true, pi, sg, n);
    lemma_ren_const(cofv(fs[sg[j]], v), false, pi, sg, n);
}
pub proof fn lemma_ren_fix(fs: Seq<BF>, v: Seq<Option<bool>>, pi: Seq<int>, sg: Seq<int>)
    requires bij(pi, sg, fs.len() as int), v.len() == fs.len(),
    ensures is_fix(fs, v) <==> is_fix(ren_fs(fs, pi, sg), ren_v(v, sg))
{
    let fs2 = ren_fs(fs, pi, sg); let v2 = ren_v(v, sg);
    if is_fix(fs, v) {
        assert forall|j: int| 0 <= j < fs2.len() implies #[trigger] v2[j] == gamma_at(fs2, v2, j) by { lemma_ren_gamma(fs, v, pi, sg, j); assert(v[sg[j]] == gamma_at(fs, v, sg[j])); }
    }
    if is_fix(fs2, v2) {
        assert forall|i: int| 0 <= i < fs.len() implies #[trigger] v[i] == gamma_at(fs, v, i) by {
            let j = pi[i]; assert(sg[j] == i);
            lemma_ren_gamma(fs, v, pi, sg, j);
            assert(v2[j] == gamma_at(fs2, v2, j));
        }
    }
}
pub proof fn lemma_ren_v_inv<T>(w2: Seq<T>, pi: Seq<int>, sg: Seq<int>)
    requires bij(pi, sg, w2.len() as int),
    ensures ren_v(ren_v(w2, pi), sg) == w2
{
    let w = ren_v(w2, pi);
    assert forall|j: int| 0 <= j < w2.len() implies #[trigger] ren_v(w, sg)[j] == w2[j] by { assert(pi[sg[j]] == j); assert(w[sg[j]] == w2[pi[sg[j]]]); }
    assert(ren_v(w, sg) =~= w2);
}
pub proof fn lemma_ren_below(v: Seq<Option<bool>>, w: Seq<Option<bool>>, pi: Seq<int>, sg: Seq<int>)
    requires bij(pi, sg, v.len() as int), w.len() == v.len(),
    ensures below(v, w) <==> below(ren_v(v, sg), ren_v(w, sg))
{
    let v2 = ren_v(v, sg); let w2 = ren_v(w, sg);
    if below(v, w) { assert forall|j: int| 0 <= j < v2.len() && (#[trigger] v2[j]).is_some() implies w2[j] == v2[j] by { assert(v[sg[j]].is_some()); } }
    if below(v2, w2) { assert forall|i: int| 0 <= i < v.len() && (#[trigger] v[i]).is_some() implies w[i] == v[i] by { let j = pi[i]; assert(sg[j] == i); assert(v2[j].is_some()); assert(w2[j] == v2[j]); } }
}
// the least fixpoint (grounded interpretation) is the renamed least fixpoint
pub proof fn lemma_ren_lfp(fs: Seq<BF>, v: Seq<Option<bool>>, pi: Seq<int>, sg: Seq<int>)
    requires bij(pi, sg, fs.len() as int), v.len() == fs.len(),
    ensures is_lfp(fs, v) <==> is_lfp(ren_fs(fs, pi, sg), ren_v(v, sg))
{
    let fs2 = ren_fs(fs, pi, sg); let v2 = ren_v(v, sg);
    lemma_ren_fix(fs, v, pi, sg);
    if is_lfp(fs, v) {
        assert forall|w2: Seq<Option<bool>>| #[trigger] is_fix(fs2, w2) implies below(v2, w2) by {
            let w = ren_v(w2, pi);
            lemma_ren_v_inv(w2, pi, sg);
            lemma_ren_fix(fs, w, pi, sg);
            assert(is_fix(fs, w));
            lemma_ren_below(v, w, pi, sg);
        }
    }
    if is_lfp(fs2, v2) {
        assert forall|w: Seq<Option<bool>>| #[trigger] is_fix(fs, w) implies below(v, w) by {
            lemma_ren_fix(fs, w, pi, sg);
            assert(is_fix(fs2, ren_v(w, sg)));
            lemma_ren_below(v, w, pi, sg);
        }
    }
}
// stable models: the reduct of the renamed ADF by the renamed vector is the renamed reduct
pub proof fn lemma_ren_stable(fs: Seq<BF>, v: Seq<Term>, pi: Seq<int>, sg: Seq<int>)
    requires bij(pi, sg, fs.len() as int), v.len() == fs.len(),
    ensures is_stable(fs, v) <==> is_stable(ren_fs(fs, pi, sg), ren_v(v, sg))
{
    let n = fs.len() as int;
    let fs2 = ren_fs(fs, pi, sg); let v2 = ren_v(v, sg);
    let u = tvs(false_part(v)); let u2 = tvs(false_part(v2));
    assert(u2 =~= ren_v(u, sg));
    assert(tvs(v2) =~= ren_v(tvs(v), sg));
    assert forall|j: int| 0 <= j < n implies #[trigger] reduct(fs2, v2)[j] == ren_fs(reduct(fs, v), pi, sg)[j] by {
        lemma_cof_cofv(fs2[j], false_part(v2));
        lemma_cof_cofv(fs[sg[j]], false_part(v));
        lemma_ren_cofv(fs[sg[j]], u, pi, sg, n);
    }
    assert(reduct(fs2, v2) =~= ren_fs(reduct(fs, v), pi, sg));
    lemma_ren_lfp(reduct(fs, v), tvs(v), pi, sg);
}
// C10 at the level of the contracts: under a renumbering of the statements the grounded interpretation, the complete
// interpretations (fixpoints), the two-valued models and the stable models are the renumbered ones
pub proof fn lemma_c10(fs: Seq<BF>, v: Seq<Term>, pi: Seq<int>, sg: Seq<int>)
    requires bij(pi, sg, fs.len() as int), v.len() == fs.len(),
    ensures
        is_lfp(fs, tvs(v)) <==> is_lfp(ren_fs(fs, pi, sg), tvs(ren_v(v, sg))),
        is_fix(fs, tvs(v)) <==> is_fix(ren_fs(fs, pi, sg), tvs(ren_v(v, sg))),
        is_stable(fs, v) <==> is_stable(ren_fs(fs, pi, sg), ren_v(v, sg)),
        goal(fs, true, v) <==> goal(ren_fs(fs, pi, sg), true, ren_v(v, sg)),
        goal(fs, false, v) <==> goal(ren_fs(fs, pi, sg), false, ren_v(v, sg)),
{
    let v2 = ren_v(v, sg);
    assert(tvs(v2) =~= ren_v(tvs(v), sg));
    lemma_ren_lfp(fs, tvs(v), pi, sg);
    lemma_ren_fix(fs, tvs(v), pi, sg);
    lemma_ren_stable(fs, v, pi, sg);
    if forall|j: int| 0 <= j < v.len() ==> decided(#[trigger] v[j]) { assert forall|j: int| 0 <= j < v2.len() implies decided(#[trigger] v2[j]) by { assert(decided(v[sg[j]])); } }
    if forall|j: int| 0 <= j < v2.len() ==> decided(#[trigger] v2[j]) { assert forall|i: int| 0 <= i < v.len() implies decided(#[trigger] v[i]) by { let j = pi[i]; assert(sg[j] == i); assert(decided(v2[j])); } }
}
// ---- the link to the compiled ADF (C09's contract): a formula read against a renumbered dictionary denotes the renamed function
pub open spec fn vc_ren(vc1: &VarContainer, vc2: &VarContainer, pi: Seq<int>) -> bool {
    forall|l: Seq<char>| (#[trigger] vc_index(vc1, l)).is_some() && vc_index(vc1, l).unwrap() < pi.len() ==> vc_index(vc2, l) == Some(pi[vc_index(vc1, l).unwrap() as int] as usize)
}
pub proof fn lemma_ren_var(x: usize, pi: Seq<int>, sg: Seq<int>, n: int)
    requires bij(pi, sg, n), x < n,
    ensures bf_var(pi[x as int] as usize) == ren_bf(bf_var(x), pi)
{
    assert forall|a2: Asg| #[trigger] bf_var(pi[x as int] as usize)(a2) == ren_bf(bf_var(x), pi)(a2) by {
        law_var_eval(pi[x as int] as usize, a2); law_var_eval(x, ren_asg(a2, pi));
    }
    assert(bf_var(pi[x as int] as usize) =~= ren_bf(bf_var(x), pi));
}
pub proof fn law_ren_not(f: BF, pi: Seq<int>) ensures bf_not(ren_bf(f, pi)) == ren_bf(bf_not(f), pi)
{
    assert forall|a2: Asg| #[trigger] bf_not(ren_bf(f, pi))(a2) == ren_bf(bf_not(f), pi)(a2) by { law_ops_eval(ren_bf(f, pi), f, a2); law_ops_eval(f, f, ren_asg(a2, pi)); }
    assert(bf_not(ren_bf(f, pi)) =~= ren_bf(bf_not(f), pi));
}
pub proof fn law_ren_bin(f: BF, g: BF, pi: Seq<int>)
    ensures bf_and(ren_bf(f, pi), ren_bf(g, pi)) == ren_bf(bf_and(f, g), pi), bf_or(ren_bf(f, pi), ren_bf(g, pi)) == ren_bf(bf_or(f, g), pi),
        bf_imp(ren_bf(f, pi), ren_bf(g, pi)) == ren_bf(bf_imp(f, g), pi), bf_iff(ren_bf(f, pi), ren_bf(g, pi)) == ren_bf(bf_iff(f, g), pi),
        bf_xor(ren_bf(f, pi), ren_bf(g, pi)) == ren_bf(bf_xor(f, g), pi),
{
    assert forall|a2: Asg| #[trigger] bf_and(ren_bf(f, pi), ren_bf(g, pi))(a2) == ren_bf(bf_and(f, g), pi)(a2) by { law_ops_eval(ren_bf(f, pi), ren_bf(g, pi), a2); law_ops_eval(f, g, ren_asg(a2, pi)); }
    assert forall|a2: Asg| #[trigger] bf_or(ren_bf(f, pi), ren_bf(g, pi))(a2) == ren_bf(bf_or(f, g), pi)(a2) by { law_ops_eval(ren_bf(f, pi), ren_bf(g, pi), a2); law_ops_eval(f, g, ren_asg(a2, pi)); }
    assert forall|a2: Asg| #[trigger] bf_imp(ren_bf(f, pi), ren_bf(g, pi))(a2) == ren_bf(bf_imp(f, g), pi)(a2) by { law_ops_eval(ren_bf(f, pi), ren_bf(g, pi), a2); law_ops_eval(f, g, ren_asg(a2, pi)); }
    assert forall|a2: Asg| #[trigger] bf_iff(ren_bf(f, pi), ren_bf(g, pi))(a2) == ren_bf(bf_iff(f, g), pi)(a2) by { law_ops_eval(ren_bf(f, pi), ren_bf(g, pi), a2); law_ops_eval(f, g, ren_asg(a2, pi)); }
    assert forall|a2: Asg| #[trigger] bf_xor(ren_bf(f, pi), ren_bf(g, pi))(a2) == ren_bf(bf_xor(f, g), pi)(a2) by { law_ops_eval(ren_bf(f, pi), ren_bf(g, pi), a2); law_ops_eval(f, g, ren_asg(a2, pi)); }
    assert(bf_and(ren_bf(f, pi), ren_bf(g, pi)) =~= ren_bf(bf_and(f, g), pi));
    assert(bf_or(ren_bf(f, pi), ren_bf(g, pi)) =~= ren_bf(bf_or(f, g), pi));
    assert(bf_imp(ren_bf(f, pi), ren_bf(g, pi)) =~= ren_bf(bf_imp(f, g), pi));
    assert(bf_iff(ren_bf(f, pi), ren_bf(g, pi)) =~= ren_bf(bf_iff(f, g), pi));
    assert(bf_xor(ren_bf(f, pi), ren_bf(g, pi)) =~= ren_bf(bf_xor(f, g), pi));
}
pub proof fn lemma_fsem_ren(f: Formula, vc1: &VarContainer, vc2: &VarContainer, pi: Seq<int>, sg: Seq<int>, n: int)
    requires bij(pi, sg, n), atoms_ok(f, vc1, n), vc_ren(vc1, vc2, pi),
    ensures fsem(f, vc2) == ren_bf(fsem(f, vc1), pi), atoms_ok(f, vc2, n)
    decreases f
{
    match f {
        Formula::Bot => { lemma_ren_const(bf_const(false), false, pi, sg, n); }
        Formula::Top => { lemma_ren_const(bf_const(true), true, pi, sg, n); }
        Formula::Atom(a) => { let x = vc_index(vc1, a@).unwrap(); assert(vc_index(vc2, a@) == Some(pi[x as int] as usize)); lemma_ren_var(x, pi, sg, n); }
        Formula::Not(x) => { lemma_fsem_ren(*x, vc1, vc2, pi, sg, n); law_ren_not(fsem(*x, vc1), pi); }
        Formula::And(x, y) => { lemma_fsem_ren(*x, vc1, vc2, pi, sg, n); lemma_fsem_ren(*y, vc1, vc2, pi, sg, n); law_ren_bin(fsem(*x, vc1), fsem(*y, vc1), pi); }
        Formula::Or(x, y) => { lemma_fsem_ren(*x, vc1, vc2, pi, sg, n); lemma_fsem_ren(*y, vc1, vc2, pi, sg, n); law_ren_bin(fsem(*x, vc1), fsem(*y, vc1), pi); }
        Formula::Imp(x, y) => { lemma_fsem_ren(*x, vc1, vc2, pi, sg, n); lemma_fsem_ren(*y, vc1, vc2, pi, sg, n); law_ren_bin(fsem(*x, vc1), fsem(*y, vc1), pi); }
        Formula::Xor(x, y) => { lemma_fsem_ren(*x, vc1, vc2, pi, sg, n); lemma_fsem_ren(*y, vc1, vc2, pi, sg, n); law_ren_bin(fsem(*x, vc1), fsem(*y, vc1), pi); }
        Formula::Iff(x, y) => { lemma_fsem_ren(*x, vc1, vc2, pi, sg, n); lemma_fsem_ren(*y, vc1, vc2, pi, sg, n); law_ren_bin(fsem(*x, vc1), fsem(*y, vc1), pi); }
    }
}
// two ADFs compiled from the same facts against dictionaries that differ by the renumbering pi: the second is the renamed first.
// fs1[o1[k]] is the condition of the k-th fact in the first numbering (C09: Adf::compiled), fs2[pi[o1[k]]] in the second.
pub open spec fn has_fact(o1: Seq<usize>, f: BF, i: int) -> bool { exists|k: int| 0 <= k < o1.len() && #[trigger] o1[k] == i }
pub proof fn lemma_compiled_ren(fs1: Seq<BF>, fs2: Seq<BF>, o1: Seq<usize>, fm: Seq<Formula>, vc1: &VarContainer, vc2: &VarContainer, pi: Seq<int>, sg: Seq<int>)
    requires bij(pi, sg, fs1.len() as int), fs2.len() == fs1.len(), fm.len() == o1.len(), vc_ren(vc1, vc2, pi),
        forall|k: int| 0 <= k < o1.len() ==> (#[trigger] o1[k]) < fs1.len() && atoms_ok(fm[k], vc1, fs1.len() as int),
        forall|k: int| 0 <= k < o1.len() ==> fs1[#[trigger] o1[k] as int] == fsem(fm[k], vc1),
        forall|k: int| 0 <= k < o1.len() ==> fs2[pi[#[trigger] o1[k] as int]] == fsem(fm[k], vc2),
        // every statement has an acceptance condition
        forall|i: int| 0 <= i < fs1.len() ==> has_fact(o1, #[trigger] fs1[i], i),
    ensures fs2 == ren_fs(fs1, pi, sg)
{
    let n = fs1.len() as int;
    assert forall|j: int| 0 <= j < n implies #[trigger] fs2[j] == ren_fs(fs1, pi, sg)[j] by {
        let i = sg[j]; assert(pi[i] == j);
        assert(has_fact(o1, fs1[i], i));
        let k = choose|k: int| 0 <= k < o1.len() && #[trigger] o1[k] == i;
        lemma_fsem_ren(fm[k], vc1, vc2, pi, sg, n);
    }
    assert(fs2 =~= ren_fs(fs1, pi, sg));
}
