// rule S: opaque stub for roaring::RoaringBitmap.  Every `ensures` below is an ASSUMED contract on the dependency
// (textbook set algebra over u32); inherent generic methods shadow the operator-trait methods the real code calls
// (`(&a).bitxor(&b)`, `a.bitand(&b)`, `a.bitxor_assign(b)` ...), so the NoGood code type-checks verbatim.
global layout usize is size == 8;
#[verifier::external_body]
pub struct RoaringBitmap { _p: core::marker::PhantomData<u32> }
pub uninterp spec fn rb_view(b: &RoaringBitmap) -> Set<u32>;
pub trait RbArg: Sized { spec fn v(&self) -> Set<u32>; }
impl RbArg for RoaringBitmap { open spec fn v(&self) -> Set<u32> { rb_view(self) } }
impl<'a> RbArg for &'a RoaringBitmap { open spec fn v(&self) -> Set<u32> { rb_view(*self) } }
pub open spec fn sxor(a: Set<u32>, b: Set<u32>) -> Set<u32> { a.difference(b).union(b.difference(a)) }
impl RoaringBitmap {
    #[verifier::external_body] pub fn len(&self) -> (r: u64) ensures r == rb_view(self).len() { unimplemented!() }
    #[verifier::external_body] pub fn is_empty(&self) -> (r: bool) ensures r == (rb_view(self) =~= Set::<u32>::empty()) { unimplemented!() }
    #[verifier::external_body] pub fn contains(&self, x: u32) -> (r: bool) ensures r == rb_view(self).contains(x) { unimplemented!() }
    #[verifier::external_body] pub fn min(&self) -> (r: Option<u32>)
        ensures match r { Some(m) => rb_view(self).contains(m) && forall|x: u32| rb_view(self).contains(x) ==> m <= x, None => rb_view(self) =~= Set::<u32>::empty() } { unimplemented!() }
    #[verifier::external_body] pub fn insert(&mut self, x: u32) -> (r: bool) ensures rb_view(final(self)) == rb_view(old(self)).insert(x), r == !rb_view(old(self)).contains(x) { unimplemented!() }
    #[verifier::external_body] pub fn remove(&mut self, x: u32) -> (r: bool) ensures rb_view(final(self)) == rb_view(old(self)).remove(x), r == rb_view(old(self)).contains(x) { unimplemented!() }
    #[verifier::external_body] pub fn clone(&self) -> (r: RoaringBitmap) ensures rb_view(&r) == rb_view(self) { unimplemented!() }
    #[verifier::external_body] pub fn bitxor<A: RbArg>(&self, o: A) -> (r: RoaringBitmap) ensures rb_view(&r) == sxor(rb_view(self), o.v()) { unimplemented!() }
    #[verifier::external_body] pub fn bitand<A: RbArg>(&self, o: A) -> (r: RoaringBitmap) ensures rb_view(&r) == rb_view(self).intersect(o.v()) { unimplemented!() }
    #[verifier::external_body] pub fn bitor<A: RbArg>(&self, o: A) -> (r: RoaringBitmap) ensures rb_view(&r) == rb_view(self).union(o.v()) { unimplemented!() }
    #[verifier::external_body] pub fn bitxor_assign<A: RbArg>(&mut self, o: A) ensures rb_view(final(self)) == sxor(rb_view(old(self)), o.v()) { unimplemented!() }
    // further methods of the real type that a maintenance edit of nogoods.rs may reach for (same textbook meaning, ASSUMED)
    #[verifier::external_body] pub fn bitand_assign<A: RbArg>(&mut self, o: A) ensures rb_view(final(self)) == rb_view(old(self)).intersect(o.v()) { unimplemented!() }
    #[verifier::external_body] pub fn bitor_assign<A: RbArg>(&mut self, o: A) ensures rb_view(final(self)) == rb_view(old(self)).union(o.v()) { unimplemented!() }
    #[verifier::external_body] pub fn sub_assign<A: RbArg>(&mut self, o: A) ensures rb_view(final(self)) == rb_view(old(self)).difference(o.v()) { unimplemented!() }
    #[verifier::external_body] pub fn sub<A: RbArg>(&self, o: A) -> (r: RoaringBitmap) ensures rb_view(&r) == rb_view(self).difference(o.v()) { unimplemented!() }
    #[verifier::external_body] pub fn is_subset(&self, o: &RoaringBitmap) -> (r: bool) ensures r == rb_view(self).subset_of(rb_view(o)) { unimplemented!() }
    #[verifier::external_body] pub fn is_superset(&self, o: &RoaringBitmap) -> (r: bool) ensures r == rb_view(o).subset_of(rb_view(self)) { unimplemented!() }
    #[verifier::external_body] pub fn is_disjoint(&self, o: &RoaringBitmap) -> (r: bool) ensures r == (rb_view(self).intersect(rb_view(o)) =~= Set::<u32>::empty()) { unimplemented!() }
    #[verifier::external_body] pub fn max(&self) -> (r: Option<u32>)
        ensures match r { Some(m) => rb_view(self).contains(m) && forall|x: u32| rb_view(self).contains(x) ==> x <= m, None => rb_view(self) =~= Set::<u32>::empty() } { unimplemented!() }
    #[verifier::external_body] pub fn clear(&mut self) ensures rb_view(final(self)) =~= Set::<u32>::empty() { unimplemented!() }
}
impl Clone for RoaringBitmap { #[verifier::external_body] fn clone(&self) -> Self { unimplemented!() } }
// std conversions the code `expect`s to succeed (the precondition is the panic condition)
#[verifier::external_body]
fn __o_usize_to_u32(x: usize) -> (r: u32) requires x <= u32::MAX ensures r == x { x.try_into().expect("") }
#[verifier::external_body]
fn __o_u64_to_usize(x: u64) -> (r: usize) ensures r == x { x.try_into().expect("") }
