} // mod sp
use sp::*;
