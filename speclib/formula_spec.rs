// C09: the Boolean function written by a parsed formula, relative to the label -> index dictionary.
// rule S: VarContainer (Arc<RwLock<HashMap>>) and AdfParser are opaque stubs; their specs are ASSUMED (the parser side is C08).
pub uninterp spec fn vc_index(vc: &VarContainer, name: Seq<char>) -> Option<usize>;
pub uninterp spec fn vc_name(vc: &VarContainer, i: int) -> Option<Seq<char>>;
impl VarContainer {
    #[verifier::external_body]
    pub fn variable(&self, name: &str) -> (r: Option<Var>)
        ensures match r { Some(v) => vc_index(self, name@) == Some(v.0), None => vc_index(self, name@).is_none() }
    { unimplemented!() }
    // ASSUMED: the label list and the label -> index map are inverse to each other
    #[verifier::external_body]
    pub fn name(&self, var: Var) -> (r: Option<String>)
        ensures match r { Some(s) => vc_name(self, var.0 as int) == Some(s@) && vc_index(self, s@) == Some(var.0), None => vc_name(self, var.0 as int).is_none() }
    { unimplemented!() }
}
pub open spec fn fsem(f: Formula, vc: &VarContainer) -> BF
    decreases f
{
    match f {
        Formula::Bot => bf_const(false),
        Formula::Top => bf_const(true),
        Formula::Atom(a) => bf_var(vc_index(vc, a@).unwrap()),
        Formula::Not(x) => bf_not(fsem(*x, vc)),
        Formula::And(x, y) => bf_and(fsem(*x, vc), fsem(*y, vc)),
        Formula::Or(x, y) => bf_or(fsem(*x, vc), fsem(*y, vc)),
        Formula::Imp(x, y) => bf_imp(fsem(*x, vc), fsem(*y, vc)),
        Formula::Xor(x, y) => bf_xor(fsem(*x, vc), fsem(*y, vc)),
        Formula::Iff(x, y) => bf_iff(fsem(*x, vc), fsem(*y, vc)),
    }
}
// every atom is in the dictionary with an index below n
pub open spec fn atoms_ok(f: Formula, vc: &VarContainer, n: int) -> bool
    decreases f
{
    match f {
        Formula::Bot => true, Formula::Top => true,
        Formula::Atom(a) => vc_index(vc, a@).is_some() && vc_index(vc, a@).unwrap() < n,
        Formula::Not(x) => atoms_ok(*x, vc, n),
        Formula::And(x, y) => atoms_ok(*x, vc, n) && atoms_ok(*y, vc, n),
        Formula::Or(x, y) => atoms_ok(*x, vc, n) && atoms_ok(*y, vc, n),
        Formula::Imp(x, y) => atoms_ok(*x, vc, n) && atoms_ok(*y, vc, n),
        Formula::Xor(x, y) => atoms_ok(*x, vc, n) && atoms_ok(*y, vc, n),
        Formula::Iff(x, y) => atoms_ok(*x, vc, n) && atoms_ok(*y, vc, n),
    }
}
// ---- the parser object as seen by Adf::from_parser (ASSUMED accessor specs)
#[verifier::external_body]
pub struct AdfParser<'a> { _p: core::marker::PhantomData<&'a u8> }
pub uninterp spec fn p_n(p: &AdfParser) -> nat;                       // number of statements
pub uninterp spec fn p_vc(p: &AdfParser) -> VarContainer;             // the dictionary
pub uninterp spec fn p_order(p: &AdfParser) -> Seq<usize>;            // insertion position -> variable index of the statement the formula belongs to
pub uninterp spec fn p_formula<'a>(p: &AdfParser<'a>, i: int) -> Formula<'a>;
pub uninterp spec fn p_names(p: &AdfParser) -> Seq<Seq<char>>;       // statement labels in index order
// position of a label in a list of labels
pub open spec fn names_index(names: Seq<Seq<char>>, s: Seq<char>) -> Option<usize> { biodivine_lib_bdd::bld_index(names, s) }
// the dictionary is the inverse of the label list (ASSUMED parser invariant, C08 side)
pub open spec fn p_names_wf(p: &AdfParser) -> bool {
    &&& p_names(p).len() == p_n(p)
    &&& forall|s: Seq<char>| #[trigger] vc_index(&p_vc(p), s) == names_index(p_names(p), s)
    &&& forall|i: int| 0 <= i < p_n(p) ==> vc_name(&p_vc(p), i).is_some()
}
pub open spec fn p_wf(p: &AdfParser) -> bool {
    &&& p_n(p) < usize::MAX - 1
    &&& forall|k: int| 0 <= k < p_order(p).len() ==> (#[trigger] p_order(p)[k]) < p_n(p) && atoms_ok(p_formula(p, k), &p_vc(p), p_n(p) as int)
    &&& forall|k: int, l: int| 0 <= k < l < p_order(p).len() ==> p_order(p)[k] != p_order(p)[l]
}
impl<'a> AdfParser<'a> {
    #[verifier::external_body] pub fn dict_size(&self) -> (r: usize) ensures r == p_n(self) { unimplemented!() }
    #[verifier::external_body] pub fn var_container(&self) -> (r: VarContainer) ensures r == p_vc(self) { unimplemented!() }
    #[verifier::external_body] pub fn formula_order(&self) -> (r: Vec<usize>) ensures r@ == p_order(self) { unimplemented!() }
    #[verifier::external_body] pub fn formula_count(&self) -> (r: usize) ensures r == p_order(self).len() { unimplemented!() }
    #[verifier::external_body] pub fn ac_at(&self, idx: usize) -> (r: Option<Formula<'a>>)
        ensures match r { Some(f) => idx < p_order(self).len() && f == p_formula(self, idx as int), None => idx >= p_order(self).len() } { unimplemented!() }
}

pub proof fn lemma_atoms_mono(f: Formula, vc: &VarContainer, n: int, m: int)
    requires atoms_ok(f, vc, n), n <= m,
    ensures atoms_ok(f, vc, m)
    decreases f
{
    match f {
        Formula::Bot => {}, Formula::Top => {}, Formula::Atom(a) => {},
        Formula::Not(x) => { lemma_atoms_mono(*x, vc, n, m); }
        Formula::And(x, y) => { lemma_atoms_mono(*x, vc, n, m); lemma_atoms_mono(*y, vc, n, m); }
        Formula::Or(x, y) => { lemma_atoms_mono(*x, vc, n, m); lemma_atoms_mono(*y, vc, n, m); }
        Formula::Imp(x, y) => { lemma_atoms_mono(*x, vc, n, m); lemma_atoms_mono(*y, vc, n, m); }
        Formula::Xor(x, y) => { lemma_atoms_mono(*x, vc, n, m); lemma_atoms_mono(*y, vc, n, m); }
        Formula::Iff(x, y) => { lemma_atoms_mono(*x, vc, n, m); lemma_atoms_mono(*y, vc, n, m); }
    }
}
// a formula over declared statements denotes a function of the declared statements only
pub proof fn lemma_fsem_dep(f: Formula, vc: &VarContainer, n: int)
    requires atoms_ok(f, vc, n),
    ensures dep_below(fsem(f, vc), n)
    decreases f
{
    match f {
        Formula::Bot => { lemma_dep_const(false, n); }, Formula::Top => { lemma_dep_const(true, n); },
        Formula::Atom(a) => { lemma_dep_var(vc_index(vc, a@).unwrap(), n); },
        Formula::Not(x) => { lemma_fsem_dep(*x, vc, n); lemma_dep_not(fsem(*x, vc), n); }
        Formula::And(x, y) => { lemma_fsem_dep(*x, vc, n); lemma_fsem_dep(*y, vc, n); lemma_dep_bin(fsem(*x, vc), fsem(*y, vc), n); }
        Formula::Or(x, y) => { lemma_fsem_dep(*x, vc, n); lemma_fsem_dep(*y, vc, n); lemma_dep_bin(fsem(*x, vc), fsem(*y, vc), n); }
        Formula::Imp(x, y) => { lemma_fsem_dep(*x, vc, n); lemma_fsem_dep(*y, vc, n); lemma_dep_bin(fsem(*x, vc), fsem(*y, vc), n); }
        Formula::Xor(x, y) => { lemma_fsem_dep(*x, vc, n); lemma_fsem_dep(*y, vc, n); lemma_dep_bin(fsem(*x, vc), fsem(*y, vc), n); }
        Formula::Iff(x, y) => { lemma_fsem_dep(*x, vc, n); lemma_fsem_dep(*y, vc, n); lemma_dep_bin(fsem(*x, vc), fsem(*y, vc), n); }
    }
}
