// rule S + G: the results channel of the nogood search (C05).  The log token records everything handed to Sender::send, in order.
// ASSUMED: send on the results channel succeeds (the consumer keeps its receiver until the search has ended; otherwise the
// search panics on `.expect("Sender should accept results")`, which is outside the property)
pub tracked struct ResLog { pub ghost sent: Seq<Seq<Term>> }
impl<T> core::fmt::Debug for crossbeam_channel::SendError<T> { #[verifier::external_body] fn fmt(&self, f: &mut core::fmt::Formatter<'_>) -> core::fmt::Result { unimplemented!() } }
impl crossbeam_channel::Sender<Vec<Term>> {
    #[verifier::external_body]
    pub fn send(&self, t: Vec<Term>, Tracked(log): Tracked<&mut ResLog>) -> (r: Result<(), crossbeam_channel::SendError<Vec<Term>>>)
        ensures r.is_ok(), final(log).sent == old(log).sent.push(t@)
    { unimplemented!() }
}
// the abstract branching heuristic: anything that satisfies the contract the property demands of custom heuristics
#[verifier::external_body]
fn __heu_any(adf: &Adf, interpr: &[Term]) -> (r: Option<(Var, Term)>) ensures heu_ok(interpr@, r) { unimplemented!() }
// the stability test of the two-valued mode: the closure `|_self, _int| true` of two_val_nogood_channel (shape obligation)
fn __always_true(adf: &mut Adf, interpr: &[Term]) -> (r: bool) ensures r, *final(adf) == *old(adf) { true }
#[verifier::external_body]
fn __o_vec_to_vec(v: &Vec<Term>) -> (r: Vec<Term>) ensures r@ == v@ { v.to_vec() }
