// rule S + G: the results channel of the nogood search (C05).  The log token records everything handed to Sender::send, in order.
// ASSUMED: send on the results channel succeeds (the consumer keeps its receiver until the search has ended; otherwise the
// search panics on `.expect("Sender should accept results")`, which is outside the property)
pub tracked struct ResLog { pub ghost sent: Seq<Seq<Term>> }
impl<T> core::fmt::Debug for crossbeam_channel::SendError<T> { #[verifier::external_body] fn fmt(&self, f: &mut core::fmt::Formatter<'_>) -> core::fmt::Result { unimplemented!() } }
impl crossbeam_channel::Sender<Vec<Term>> {
    #[verifier::external_body]
    pub fn send(&self, t: Vec<Term>, Tracked(log): Tracked<&mut ResLog>) -> (r: Result<(), crossbeam_channel::SendError<Vec<Term>>>)
        ensures r.is_ok(), final(log).sent == old(log).sent.push(t@)
    { unimplemented!() }
}
// the abstract branching heuristic: anything that satisfies the contract the property demands of custom heuristics
#[verifier::external_body]
fn __heu_any(adf: &Adf, interpr: &[Term]) -> (r: Option<(Var, Term)>) requires adf.wf(), adf.handles_ok(interpr@) ensures heu_ok(interpr@, r) { unimplemented!() }
// the stability test of the two-valued mode: the closure `|_self, _int| true` of two_val_nogood_channel (shape obligation)
fn __always_true(adf: &mut Adf, interpr: &[Term]) -> (r: bool) ensures r, *final(adf) == *old(adf) { true }
#[verifier::external_body]
fn __o_vec_to_vec(v: &Vec<Term>) -> (r: Vec<Term>) ensures r@ == v@ { v.to_vec() }
// rule S: the public selector enum holds `&dyn Fn` values; its only use in the functions under contract is
// `heuristic.get_heuristic()` as an argument of nogood_internal, which rule M replaces by the abstract heuristic __heu_any
#[verifier::external_body]
pub struct Heuristic<'a> { _p: core::marker::PhantomData<&'a u8> }
// ASSUMED (channel): once every sender is gone, iterating the receiver yields exactly what was sent, in order.
// The log token stands for the channel created by the caller: fresh, one sender (moved into nogood_internal and dropped there)
#[verifier::external_body]
fn __o_recv_all(r: &crossbeam_channel::Receiver<Vec<Term>>, Tracked(log): Tracked<&ResLog>) -> (v: Vec<Vec<Term>>)
    ensures v@.len() == log.sent.len(), forall|k: int| 0 <= k < v@.len() ==> (#[trigger] v@[k])@ == log.sent[k]
{ unimplemented!() }
