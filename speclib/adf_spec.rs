// ADF-level specs: the handles of an interpretation vector denote functions in the shared store
impl Adf {
    pub open spec fn handles_ok(&self, v: Seq<Term>) -> bool { forall|j: int| 0 <= j < v.len() ==> (#[trigger] v[j]).0 < self.bdd.nodes@.len() }
    pub open spec fn wf(&self) -> bool { self.bdd.wf() && self.handles_ok(self.ac@) && self.ac@.len() < usize::MAX - 1 }
}
impl Bdd {
    // the unique table makes the node table duplicate free (premise of canonicity)
    pub proof fn lemma_wf_nodup(&self)
        requires self.wf_core(),
        ensures nodup(self.nodes@)
    {
        assert forall|i: int, j: int| 2 <= i < j < self.nodes@.len() implies self.nodes@[i] != self.nodes@[j] by {
            assert(self.cache@.contains_key(self.nodes@[i]) && self.cache@[self.nodes@[i]].0 == i);
            assert(self.cache@.contains_key(self.nodes@[j]) && self.cache@[self.nodes@[j]].0 == j);
        }
    }
}
// Term::no_inf_inconsistency as a spec function (its contract in the bdd unit)
pub open spec fn no_inf_incons(a: Term, b: Term) -> bool { ((((a.0 <= 1) == (b.0 <= 1)) && ((a.0 == 1) == (b.0 == 1))) || a.0 > 1) }
