#!/bin/bash
# usage: seedrun.sh <patch.diff> [tier] props...   - apply a seeded change to /repo, run the given checks, restore /repo
patch="$1"; tier="$2"; shift; shift
cd /repo && git apply "$patch" || { echo "patch does not apply"; exit 9; }
cd /verif
for p in "$@"; do out=$(./check $p --tier $tier 2>&1); code=$?; echo "[$p/$tier] exit=$code $(echo "$out" | grep -E '^(VIOLATION|UNDECIDED|TOOL-ERROR)' | cut -c1-300 | head -4)"; done
git -C /repo checkout -- .
