#!/usr/bin/env python3
"""Confirms seeded changes (suite passes, demo fails with / passes without) in the seeding worktree and runs the
registered checks against each, using a scratch worktree through VERIF_REPO.  Usage: seedall.py <seed dirs...>
Each seed dir is /tmp/seed_<ID>/SEED/<X>; results go to /verif/seeded/<ID>-<X>/."""
import sys, os, json, subprocess, shutil, time
ROOT = os.path.dirname(os.path.dirname(os.path.abspath(__file__)))
WT = os.environ.get("SEED_WT", "/tmp/seedwt")

def sh(cmd, cwd=None, timeout=3600, env=None):
    p = subprocess.run(cmd, shell=True, cwd=cwd, capture_output=True, text=True, timeout=timeout, env=env)
    return p.returncode, p.stdout + p.stderr

def main():
    if not os.path.exists(WT):
        sh(f"git -C /repo worktree add --detach {WT} HEAD")
    manifest = json.load(open(f"{ROOT}/MANIFEST.json"))
    claimed = [c["property_id"] for c in manifest["checks"]]
    only_checks = os.environ.get("SEED_CHECKS")
    for sd in sys.argv[1:]:
        sd = sd.rstrip("/")
        wt = os.path.dirname(os.path.dirname(sd))          # /tmp/seed_C07
        pid = os.path.basename(wt).split("_")[1] if "_" in os.path.basename(wt) else os.path.basename(wt)   # /tmp/seed_C07 or /tmp/seed3/C07
        x = os.path.basename(sd)
        out = f"{ROOT}/seeded/{pid}-{x}"
        os.makedirs(out, exist_ok=True)
        shutil.copy(f"{sd}/patch.diff", f"{out}/patch.diff")
        if not os.path.exists(f"{out}/meta.json"):          # keep what an earlier run recorded (confirmation, results)
            shutil.copy(f"{sd}/meta.json", f"{out}/meta.json")
        if os.path.exists(f"{out}/demo"):
            shutil.rmtree(f"{out}/demo")
        shutil.copytree(f"{sd}/demo", f"{out}/demo")
        meta = json.load(open(f"{out}/meta.json"))
        res = meta.get("confirmed_by_verif", {})
        if not os.environ.get("SEED_SKIP_CONFIRM") and not res.get("done"):
            sh("git checkout -- . ", cwd=wt)
            rc, o = sh(f"git apply {sd}/patch.diff", cwd=wt)
            if rc != 0:
                res["error"] = "patch does not apply: " + o[-300:]
            else:
                rc, o = sh("cargo test --workspace --no-fail-fast --offline 2>&1 | grep -E '^test result|FAILED|error' ", cwd=wt, env=dict(os.environ, CARGO_TARGET_DIR=wt + "/target"))
                res["suite_with_change"] = [l for l in o.splitlines() if l.startswith("test result")]
                res["suite_passes_with_change"] = ("FAILED" not in o and "error" not in o and any("57 passed" in l for l in o.splitlines()) and any("4 passed" in l for l in o.splitlines()))
                rc, o = sh("bash SEED/%s/demo/run.sh %s" % (x, wt), cwd=wt, env=dict(os.environ, CARGO_TARGET_DIR=wt + "/target"))
                res["demo_exit_with_change"] = rc
                sh("git checkout -- . ", cwd=wt)
                sh("git clean -fdq lib/tests lib/src bin server 2>/dev/null", cwd=wt)
                rc, o = sh("bash SEED/%s/demo/run.sh %s" % (x, wt), cwd=wt, env=dict(os.environ, CARGO_TARGET_DIR=wt + "/target"))
                res["demo_exit_without_change"] = rc
                sh("git checkout -- . ", cwd=wt)
                sh("git clean -fdq lib/tests lib/src 2>/dev/null", cwd=wt)
                res["done"] = True
            meta["confirmed_by_verif"] = res
        # checks
        sh("git checkout -- . ", cwd=WT)
        rc, o = sh(f"git apply {out}/patch.diff", cwd=WT)
        env = dict(os.environ, VERIF_REPO=WT)
        results = meta.get("verif_checks", {})
        order = [pid] + [c for c in claimed if c != pid]
        if only_checks:
            order = only_checks.split(",")
        for c in order:
            if c not in claimed:
                results[c] = "property not claimed yet"
                continue
            tiers = ["quick", "thorough"] if c == pid else ["quick"]
            for tier in tiers:
                t0 = time.time()
                rc, o = sh(f"./check {c} --tier {tier}", cwd=ROOT, env=env)
                lines = [l[:400] for l in o.splitlines() if l.startswith(("VIOLATION", "UNDECIDED", "TOOL-ERROR"))][:4]
                results[f"{c}/{tier}"] = dict(exit=rc, lines=lines, wall_s=round(time.time() - t0))
                print(f"{pid}-{x} {c}/{tier} exit={rc} {lines[:1]}", flush=True)
                if rc == 1:
                    break
        sh("git checkout -- . ", cwd=WT)
        meta["verif_checks"] = results
        meta["verif_commit"] = subprocess.run("git -C /verif rev-parse --short HEAD", shell=True, capture_output=True, text=True).stdout.strip()
        json.dump(meta, open(f"{out}/meta.json", "w"), indent=1)
        print(f"== {pid}-{x}: confirm={res}", flush=True)

main()
