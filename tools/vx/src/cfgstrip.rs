// evaluate #[cfg(..)] exactly as rustc does for the given feature set: inactive nodes are removed,
// the attribute of active nodes is dropped
use quote::ToTokens;
use syn::visit_mut::{self, VisitMut};
use syn::{Attribute, Expr, Stmt};

pub fn eval_meta(m: &syn::Meta, feats: &[String]) -> bool {
    match m {
        syn::Meta::Path(p) => { let _ = p; false } // test, kani, custom cfgs: off
        syn::Meta::NameValue(nv) => {
            if nv.path.is_ident("feature") { if let Expr::Lit(l) = &nv.value { if let syn::Lit::Str(s) = &l.lit { return feats.contains(&s.value()); } } }
            false
        }
        syn::Meta::List(l) => {
            let inner: Vec<syn::Meta> = l.parse_args_with(syn::punctuated::Punctuated::<syn::Meta, syn::Token![,]>::parse_terminated).map(|p| p.into_iter().collect()).unwrap_or_default();
            if l.path.is_ident("not") { !inner.iter().all(|m| eval_meta(m, feats)) }
            else if l.path.is_ident("all") { inner.iter().all(|m| eval_meta(m, feats)) }
            else if l.path.is_ident("any") { inner.iter().any(|m| eval_meta(m, feats)) }
            else { false }
        }
    }
}
// returns false when the node must be removed; strips cfg attrs otherwise
fn active(attrs: &mut Vec<Attribute>, feats: &[String]) -> bool {
    let mut ok = true;
    attrs.retain(|a| {
        if a.path().is_ident("cfg") {
            if let Ok(m) = a.parse_args::<syn::Meta>() { if !eval_meta(&m, feats) { ok = false; } }
            false
        } else if a.path().is_ident("cfg_attr") { false } else { true }
    });
    ok
}
fn expr_attrs(e: &mut Expr) -> Option<&mut Vec<Attribute>> {
    Some(match e {
        Expr::Block(x) => &mut x.attrs, Expr::If(x) => &mut x.attrs, Expr::Call(x) => &mut x.attrs, Expr::MethodCall(x) => &mut x.attrs, Expr::Assign(x) => &mut x.attrs,
        Expr::Macro(x) => &mut x.attrs, Expr::Match(x) => &mut x.attrs, Expr::ForLoop(x) => &mut x.attrs, Expr::While(x) => &mut x.attrs, Expr::Loop(x) => &mut x.attrs,
        Expr::Return(x) => &mut x.attrs, Expr::Binary(x) => &mut x.attrs, Expr::Path(x) => &mut x.attrs, Expr::Struct(x) => &mut x.attrs, Expr::Tuple(x) => &mut x.attrs,
        Expr::Field(x) => &mut x.attrs, Expr::Index(x) => &mut x.attrs, Expr::Lit(x) => &mut x.attrs, Expr::Paren(x) => &mut x.attrs, Expr::Reference(x) => &mut x.attrs,
        Expr::Unary(x) => &mut x.attrs, Expr::Closure(x) => &mut x.attrs, Expr::Let(x) => &mut x.attrs, Expr::Break(x) => &mut x.attrs, Expr::Continue(x) => &mut x.attrs,
        _ => return None,
    })
}
struct Strip<'a> { feats: &'a [String] }
impl<'a> VisitMut for Strip<'a> {
    fn visit_file_mut(&mut self, f: &mut syn::File) {
        let feats = self.feats;
        f.items.retain_mut(|it| item_active(it, feats));
        visit_mut::visit_file_mut(self, f);
    }
    fn visit_item_mod_mut(&mut self, m: &mut syn::ItemMod) {
        let feats = self.feats;
        if let Some((_, items)) = &mut m.content { items.retain_mut(|it| item_active(it, feats)); }
        visit_mut::visit_item_mod_mut(self, m);
    }
    fn visit_item_impl_mut(&mut self, i: &mut syn::ItemImpl) {
        let feats = self.feats;
        i.items.retain_mut(|ii| match ii { syn::ImplItem::Fn(f) => active(&mut f.attrs, feats), syn::ImplItem::Const(c) => active(&mut c.attrs, feats), syn::ImplItem::Type(t) => active(&mut t.attrs, feats), _ => true });
        visit_mut::visit_item_impl_mut(self, i);
    }
    fn visit_fields_named_mut(&mut self, f: &mut syn::FieldsNamed) {
        let feats = self.feats;
        let kept: Vec<syn::Field> = f.named.iter().cloned().filter_map(|mut x| if active(&mut x.attrs, feats) { Some(x) } else { None }).collect();
        f.named = kept.into_iter().collect();
        visit_mut::visit_fields_named_mut(self, f);
    }
    fn visit_expr_struct_mut(&mut self, s: &mut syn::ExprStruct) {
        let feats = self.feats;
        let kept: Vec<syn::FieldValue> = s.fields.iter().cloned().filter_map(|mut x| if active(&mut x.attrs, feats) { Some(x) } else { None }).collect();
        s.fields = kept.into_iter().collect();
        visit_mut::visit_expr_struct_mut(self, s);
    }
    fn visit_expr_match_mut(&mut self, m: &mut syn::ExprMatch) {
        let feats = self.feats;
        m.arms.retain_mut(|a| active(&mut a.attrs, feats));
        visit_mut::visit_expr_match_mut(self, m);
    }
    fn visit_block_mut(&mut self, b: &mut syn::Block) {
        let feats = self.feats;
        b.stmts.retain_mut(|st| match st {
            Stmt::Local(l) => active(&mut l.attrs, feats),
            Stmt::Item(it) => item_active(it, feats),
            Stmt::Expr(e, _) => match expr_attrs(e) { Some(a) => active(a, feats), None => true },
            Stmt::Macro(m) => active(&mut m.attrs, feats),
        });
        visit_mut::visit_block_mut(self, b);
    }
    fn visit_signature_mut(&mut self, s: &mut syn::Signature) {
        let feats = self.feats;
        let kept: Vec<syn::FnArg> = s.inputs.iter().cloned().filter_map(|mut a| { let ok = match &mut a { syn::FnArg::Typed(t) => active(&mut t.attrs, feats), syn::FnArg::Receiver(r) => active(&mut r.attrs, feats) }; if ok { Some(a) } else { None } }).collect();
        s.inputs = kept.into_iter().collect();
        visit_mut::visit_signature_mut(self, s);
    }
}
fn item_active(it: &mut syn::Item, feats: &[String]) -> bool {
    use syn::Item::*;
    match it {
        Fn(x) => active(&mut x.attrs, feats), Struct(x) => active(&mut x.attrs, feats), Enum(x) => active(&mut x.attrs, feats), Impl(x) => active(&mut x.attrs, feats),
        Mod(x) => active(&mut x.attrs, feats), Use(x) => active(&mut x.attrs, feats), Type(x) => active(&mut x.attrs, feats), Const(x) => active(&mut x.attrs, feats),
        Static(x) => active(&mut x.attrs, feats), Trait(x) => active(&mut x.attrs, feats), Macro(x) => active(&mut x.attrs, feats),
        _ => true,
    }
}
pub fn strip_file(f: &mut syn::File, feats: &[String]) {
    Strip { feats }.visit_file_mut(f);
    let _ = f.to_token_stream();
}
