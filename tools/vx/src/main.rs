// vx: extract real items from /repo, apply the syntax-directed rules of DESIGN.md §3.2
// (D drop, R RefCell, O outline, T trait-impl-as-inherent, L/P lowering, A alpha-rename,
// C closure lifting), insert markers, rustfmt, splice Verus contracts at text level and emit
// one self-contained Verus file plus a JSON sidecar describing what was generated.
//
//   vx [--cfg FEATURE]... [--probes] REPO UNIT.vspec OUT.rs
//   vx --lower FILE fn...          (debug: print lowered functions)
mod cfgstrip;
mod json;
mod lower;
mod rules;
mod spec;

use json::J;
use proc_macro2::TokenStream;
use quote::ToTokens;
use spec::{FnSpec, Take, Unit};
use std::collections::BTreeMap;
use syn::visit_mut::{self, VisitMut};
use syn::{parse_quote, Expr, Item, Stmt};

// whitespace-free text; a trailing comma before `)` (rustfmt's multi-line call layout) is not significant
pub fn norm(s: &str) -> String { let t: String = s.chars().filter(|c| !c.is_whitespace()).collect(); t.replace(",)", ")") }

// ---------------------------------------------------------------- markers
struct HintInst { id: usize, template: String, args: Vec<String>, kind: String }

struct Marker<'a> {
    spec: &'a FnSpec,
    loop_n: usize,
    hint_n: usize,
    hints: &'a mut Vec<HintInst>,
    probes: bool,
    probe_n: &'a mut usize,
    fn_probes: Vec<usize>,
    return_points: usize,
    ret_ty: Option<syn::Type>,
    hoist_n: usize,
    dead_probes: Vec<usize>,
    features: Vec<String>,
}

fn callee_key(e: &Expr) -> Option<(String, Vec<String>)> {
    match e {
        Expr::MethodCall(m) => Some((norm(&format!("{}.{}", m.receiver.to_token_stream(), m.method)), m.args.iter().map(|a| a.to_token_stream().to_string()).collect())),
        Expr::Call(c) => Some((norm(&c.func.to_token_stream().to_string()), c.args.iter().map(|a| a.to_token_stream().to_string()).collect())),
        Expr::Index(ix) => Some((norm(&format!("{}[]", ix.expr.to_token_stream())), vec![ix.index.to_token_stream().to_string()])),
        _ => None,
    }
}
// pattern match: exact, or `*.method` (any receiver; $recv is bound to the receiver text)
fn pat_matches(p: &str, key: &str, e: &Expr) -> Option<Vec<String>> {
    if p == key { return Some(vec![]); }
    if let Some(meth) = p.strip_prefix("*.") {
        if let Expr::MethodCall(m) = e { if m.method == meth { return Some(vec![m.receiver.to_token_stream().to_string()]); } }
    }
    None
}
struct Finder<'a> { pats: &'a [(String, String)], found: Vec<(usize, Vec<String>, Option<String>)> }
impl<'a, 'ast> syn::visit::Visit<'ast> for Finder<'a> {
    fn visit_block(&mut self, _b: &'ast syn::Block) { /* nested blocks are handled on their own */ }
    fn visit_expr_closure(&mut self, _c: &'ast syn::ExprClosure) {}
    fn visit_stmt_macro(&mut self, sm: &'ast syn::StmtMacro) {
        let k = norm(&format!("{}!", sm.mac.path.to_token_stream()));
        for (i, (p, _)) in self.pats.iter().enumerate() { if *p == k { self.found.push((i, vec![], None)); } }
    }
    fn visit_expr_macro(&mut self, em: &'ast syn::ExprMacro) {
        let k = norm(&format!("{}!", em.mac.path.to_token_stream()));
        for (i, (p, _)) in self.pats.iter().enumerate() { if *p == k { self.found.push((i, vec![], None)); } }
    }
    fn visit_expr(&mut self, e: &'ast Expr) {
        if let Some((k, args)) = callee_key(e) {
            for (i, (p, _)) in self.pats.iter().enumerate() {
                if let Some(recv) = pat_matches(p, &k, e) { self.found.push((i, args.clone(), recv.into_iter().next())); }
            }
        }
        syn::visit::visit_expr(self, e);
    }
}
fn has_break(b: &syn::Block) -> bool {
    struct B(bool);
    impl<'ast> syn::visit::Visit<'ast> for B {
        fn visit_expr_break(&mut self, _b: &'ast syn::ExprBreak) { self.0 = true; }
        fn visit_expr_closure(&mut self, _c: &'ast syn::ExprClosure) {}
    }
    let mut v = B(false);
    syn::visit::Visit::visit_block(&mut v, b);
    v.0
}
fn is_diverging_tail(e: &Expr) -> bool {
    if let Expr::Loop(l) = e { return !has_break(&l.body); }
    match e { Expr::Return(_) | Expr::Break(_) | Expr::Continue(_) => true, Expr::Macro(m) => { let p = m.mac.path.to_token_stream().to_string(); p == "unreachable" || p == "panic" || p == "unimplemented" || p == "todo" } _ => false }
}
impl<'a> Marker<'a> {
    // `loop-start N` / `loop-end N` templates: spliced at the beginning / end of the body of loop N
    fn loop_body_hints(&mut self, n: usize, body: &mut syn::Block) {
        if let Some(t) = self.spec.loop_end.get(&n).cloned() {
            // before a trailing `k += 1` style increment?  no: at the very end of the body
            let m = self.marker(&t, vec![format!("$loop={}", n)], "loop-end"); body.stmts.push(m);
        }
        if let Some(t) = self.spec.loop_start.get(&n).cloned() { let m = self.marker(&t, vec![format!("$loop={}", n)], "loop-start"); body.stmts.insert(0, m); }
    }
    fn marker(&mut self, template: &str, args: Vec<String>, kind: &str) -> Stmt {
        let id = self.hint_n; self.hint_n += 1;
        self.hints.push(HintInst { id, template: template.to_string(), args, kind: kind.to_string() });
        let lit = proc_macro2::Literal::usize_unsuffixed(id);
        parse_quote!(__vx_hint!(#lit);)
    }
    fn probe(&mut self) -> Option<Stmt> {
        if !self.probes { return None; }
        let id = *self.probe_n; *self.probe_n += 1; self.fn_probes.push(id);
        let lit = proc_macro2::Literal::usize_unsuffixed(id);
        Some(parse_quote!(__vx_probe!(#lit);))
    }
    fn wrap_ret(&mut self, inner: Expr) -> Expr {
        self.return_points += 1;
        let m = self.marker(&self.spec.ret_hint.clone(), vec!["__ret".to_string()], "return");
        let p = self.probe();
        let letst: Stmt = match &self.ret_ty { Some(t) => parse_quote!(let __ret: #t = #inner;), None => parse_quote!(let __ret = #inner;) };
        match p { Some(p) => parse_quote!({ #letst #m #p __ret }), None => parse_quote!({ #letst #m __ret }) }
    }
    fn mark_tail(&mut self, e: &mut Expr) {
        match e {
            Expr::If(i) => {
                let cond = norm(&i.cond.to_token_stream().to_string());
                let dead = self.spec.dead_conds.iter().any(|(f, c)| *c == cond && (f == "-" || self.features.contains(f)));
                let start = *self.probe_n;
                self.mark_block_tail(&mut i.then_branch);
                if dead { for k in start..*self.probe_n { self.dead_probes.push(k); } }
                let dead_else = self.spec.dead_else.iter().any(|(f, c)| *c == cond && (f == "-" || self.features.contains(f)));
                let start2 = *self.probe_n;
                if let Some((_, el)) = &mut i.else_branch { self.mark_tail(el); }
                if dead_else { for k in start2..*self.probe_n { self.dead_probes.push(k); } }
            }
            Expr::Block(b) if b.label.is_none() => self.mark_block_tail(&mut b.block),
            Expr::Match(m) => { for arm in m.arms.iter_mut() { self.mark_tail(&mut arm.body); } }
            Expr::Unsafe(_) => {}
            other if is_diverging_tail(other) => {}
            other => { let inner = other.clone(); *other = self.wrap_ret(inner); }
        }
    }
    fn mark_block_tail(&mut self, b: &mut syn::Block) {
        let flat = match b.stmts.last() {
            Some(Stmt::Expr(e, None)) => !matches!(e, Expr::If(_) | Expr::Match(_) | Expr::Unsafe(_)) && !matches!(e, Expr::Block(bl) if bl.label.is_none()) && !is_diverging_tail(e),
            _ => false,
        };
        if flat {
            // flatten: `let __ret = E; <hint> <probe> __ret` directly in the enclosing block
            if let Some(Stmt::Expr(e, None)) = b.stmts.pop() {
                self.return_points += 1;
                let m = self.marker(&self.spec.ret_hint.clone(), vec!["__ret".to_string()], "return");
                let p = self.probe();
                let letst: Stmt = match &self.ret_ty { Some(t) => parse_quote!(let __ret: #t = #e;), None => parse_quote!(let __ret = #e;) };
                b.stmts.push(letst);
                b.stmts.push(m);
                if let Some(p) = p { b.stmts.push(p); }
                b.stmts.push(Stmt::Expr(parse_quote!(__ret), None));
            }
        } else if let Some(Stmt::Expr(e, None)) = b.stmts.last_mut() { self.mark_tail(e); }
    }
}
// an expression that may be mentioned inside a spec context as it stands (no exec calls / macros / blocks)
fn spec_safe(e: &Expr) -> bool {
    match e {
        Expr::Path(_) | Expr::Lit(_) => true,
        Expr::Field(f) => spec_safe(&f.base),
        Expr::Paren(p) => spec_safe(&p.expr),
        Expr::Group(g) => spec_safe(&g.expr),
        Expr::Tuple(t) => t.elems.iter().all(spec_safe),
        Expr::Unary(u) => spec_safe(&u.expr),
        Expr::Binary(b) => spec_safe(&b.left) && spec_safe(&b.right),
        Expr::Reference(r) => spec_safe(&r.expr),
        Expr::Cast(c) => spec_safe(&c.expr),
        Expr::Struct(s) => s.fields.iter().all(|f| spec_safe(&f.expr)) && s.rest.is_none(),
        Expr::Index(i) => spec_safe(&i.expr) && spec_safe(&i.index),
        _ => false,
    }
}
fn is_join_stmt(st: &Stmt) -> bool {
    match st { Stmt::Expr(e, _) => matches!(e, Expr::If(_) | Expr::Match(_) | Expr::While(_) | Expr::Loop(_) | Expr::ForLoop(_) | Expr::Block(_)), _ => false }
}
fn let_init_key(st: &Stmt) -> Option<(String, String)> {
    if let Stmt::Local(l) = st { if let (syn::Pat::Ident(pi), Some(init)) = (&l.pat, &l.init) { return Some((pi.ident.to_string(), norm(&init.expr.to_token_stream().to_string()))); }
        if let (syn::Pat::Type(pt), Some(init)) = (&l.pat, &l.init) { if let syn::Pat::Ident(pi) = &*pt.pat { return Some((pi.ident.to_string(), norm(&init.expr.to_token_stream().to_string()))); } } }
    None
}
// `after-let` pattern: normalised initialiser text with `$a`, `$b`.. wildcards standing for identifiers / simple paths
fn let_pat_match(pat: &str, init: &str) -> Option<Vec<(String, String)>> {
    // convert to a simple regex-free matcher: split pattern at `$x` tokens
    let mut binds = vec![];
    let pb = pat.as_bytes(); let ib = init.as_bytes();
    let (mut i, mut j) = (0usize, 0usize);
    while i < pb.len() {
        if pb[i] == b'$' {
            let mut k = i + 1; while k < pb.len() && (pb[k].is_ascii_alphanumeric() || pb[k] == b'_') { k += 1; }
            let name = &pat[i..k];
            let mut m = j; while m < ib.len() && (ib[m].is_ascii_alphanumeric() || ib[m] == b'_' || ib[m] == b'.' ) { m += 1; }
            // do not swallow a trailing `.method(` : back off to the last '.' followed by what the pattern expects
            let rest = &pat[k..];
            let mut end = m;
            loop {
                if end <= j { return None; }
                if rest.is_empty() || init[end..].starts_with(&rest[..rest.find('$').unwrap_or(rest.len())]) { break; }
                // back off to previous '.'
                match init[j..end].rfind('.') { Some(p) => end = j + p, None => return None }
            }
            binds.push((name.to_string(), init[j..end].to_string()));
            i = k; j = end;
        } else {
            if j >= ib.len() || pb[i] != ib[j] { return None; }
            i += 1; j += 1;
        }
    }
    if j == ib.len() { Some(binds) } else { None }
}
impl<'a> VisitMut for Marker<'a> {
    fn visit_expr_closure_mut(&mut self, _c: &mut syn::ExprClosure) { /* closures that survive lowering are opaque */ }
    fn visit_block_mut(&mut self, b: &mut syn::Block) {
        visit_mut::visit_block_mut(self, b);
        let mut out: Vec<Stmt> = vec![];
        let n = b.stmts.len();
        for (si, mut st) in b.stmts.drain(..).enumerate() {
            let stmt_start = out.len();
            // rule H: when a hint anchor matches the top-level call of this statement, arguments that are not
            // spec-safe (they contain calls) are hoisted into `let __hN = ARG;` in evaluation order, so that the
            // template can mention them; the call then takes the bound values
            {
                let all: Vec<(String, String)> = self.spec.before_call.iter().chain(self.spec.after_call.iter()).cloned().collect();
                let top: Option<&mut Expr> = match &mut st { Stmt::Expr(e, _) => Some(e), Stmt::Local(l) => l.init.as_mut().map(|i| &mut *i.expr), _ => None };
                // the scrutinee of a `match` is the first thing such a statement evaluates
                let top = top.map(|e| if let Expr::Match(mm) = e { &mut *mm.expr } else { e });
                if let Some(e) = top {
                    let matches_top = callee_key(e).map(|(k, _)| all.iter().any(|(p, _)| pat_matches(p, &k, e).is_some())).unwrap_or(false);
                    let mentions_args = |t: &str| { let b = t.as_bytes(); (0..b.len().saturating_sub(1)).any(|i| b[i] == b'$' && b[i + 1].is_ascii_digit()) };
                    let wants_args = callee_key(e).map(|(k, _)| all.iter().any(|(p, t)| pat_matches(p, &k, e).is_some() && mentions_args(t))).unwrap_or(false);
                    if matches_top && wants_args {
                        let args: Option<&mut syn::punctuated::Punctuated<Expr, syn::Token![,]>> = match e { Expr::MethodCall(mc) => Some(&mut mc.args), Expr::Call(c) => Some(&mut c.args), _ => None };
                        if let Some(args) = args {
                            for a in args.iter_mut() {
                                if let Expr::Reference(r) = a {
                                    // `&CALL(..)`: the temporary gets a name, the call takes `&name`
                                    if r.mutability.is_none() && !spec_safe(&r.expr) {
                                        let id = quote::format_ident!("__h{}", self.hoist_n); self.hoist_n += 1;
                                        let inner = (*r.expr).clone();
                                        out.push(parse_quote!(let #id = #inner;));
                                        *r.expr = parse_quote!(#id);
                                    }
                                } else if !spec_safe(a) {
                                    let id = quote::format_ident!("__h{}", self.hoist_n); self.hoist_n += 1;
                                    let inner = a.clone();
                                    out.push(parse_quote!(let #id = #inner;));
                                    *a = parse_quote!(#id);
                                }
                            }
                        }
                    }
                }
            }
            // before-loop N: right before the loop statement (the loop body starts with its `__vx_loop!(N)` marker by now)
            {
                let body: Option<&syn::Block> = match &st { Stmt::Expr(Expr::While(w), _) => Some(&w.body), Stmt::Expr(Expr::Loop(l), _) => Some(&l.body), _ => None };
                let num = body.and_then(|b| b.stmts.iter().find_map(|s| if let Stmt::Macro(m) = s { if m.mac.path.is_ident("__vx_loop") { m.mac.tokens.to_string().trim().parse::<usize>().ok() } else { None } } else { None }));
                if let Some(nl) = num { if let Some(t) = self.spec.before_loop.get(&nl).cloned() { let mk = self.marker(&t, vec![], "before-loop"); out.push(mk); } }
            }
            // before-if / then-start anchors on `if COND { .. }` statements
            if let Stmt::Expr(Expr::If(ife), _) = &mut st {
                let cond = norm(&ife.cond.to_token_stream().to_string());
                for (c, t) in self.spec.before_if.clone() { if c == cond { let mk = self.marker(&t, vec![], "before-if"); out.push(mk); } }
                for (c, t) in self.spec.then_start.clone() { if c == cond { let mk = self.marker(&t, vec![], "then-start"); ife.then_branch.stmts.insert(0, mk); } }
                for (c, t) in self.spec.else_start.clone() { if c == cond { if let Some((_, el)) = &mut ife.else_branch { if let Expr::Block(eb) = &mut **el { let mk = self.marker(&t, vec![], "else-start"); eb.block.stmts.insert(0, mk); } } } }
            }
            // arm-start anchors on `match` statements (also `let x = match ..`)
            {
                let top: Option<&mut Expr> = match &mut st { Stmt::Expr(e, _) => Some(e), Stmt::Local(l) => l.init.as_mut().map(|i| &mut *i.expr), _ => None };
                if let Some(Expr::Match(mm)) = top {
                    for arm in mm.arms.iter_mut() {
                        let pt = norm(&arm.pat.to_token_stream().to_string());
                        for (c, t) in self.spec.arm_start.clone() { if c == pt {
                            let mk = self.marker(&t, vec![], "arm-start");
                            if let Expr::Block(ab) = &mut *arm.body { ab.block.stmts.insert(0, mk); } else { let body = (*arm.body).clone(); *arm.body = parse_quote!({ #mk #body }); }
                        } }
                    }
                }
            }
            if let Stmt::Expr(Expr::Continue(_), _) = &st { if !self.spec.before_continue.trim().is_empty() { let t = self.spec.before_continue.clone(); let mk = self.marker(&t, vec![], "before-continue"); out.push(mk); } }
            let mut f = Finder { pats: &self.spec.before_call, found: vec![] };
            syn::visit::Visit::visit_stmt(&mut f, &st);
            let found_b = f.found;
            let mut f2 = Finder { pats: &self.spec.after_call, found: vec![] };
            syn::visit::Visit::visit_stmt(&mut f2, &st);
            let found_a = f2.found;
            for (i, mut args, recv) in found_b {
                let t = self.spec.before_call[i].1.clone();
                if let Some(r) = recv { args.push(format!("$recv={}", r)); }
                let b = t.as_bytes();
                let mentions = (0..b.len().saturating_sub(1)).any(|i| b[i] == b'$' && b[i + 1].is_ascii_digit());
                let mk = self.marker(&t, args, "before-call");
                if mentions { out.push(mk); } else { out.insert(stmt_start, mk); }
            }
            let is_tail = matches!(st, Stmt::Expr(_, None)) && si + 1 == n;
            let join = is_join_stmt(&st) && !is_tail;
            let letk = let_init_key(&st);
            if is_tail && !found_a.is_empty() {
                // after-call anchor on a tail expression: `E`  ->  `let __tN = E; <hint with $val = __tN> __tN`
                if let Stmt::Expr(e, None) = st {
                    let id = quote::format_ident!("__t{}", self.hoist_n); self.hoist_n += 1;
                    out.push(parse_quote!(let #id = #e;));
                    for (i, mut args, recv) in found_a { let t = self.spec.after_call[i].1.clone(); if let Some(r) = recv { args.push(format!("$recv={}", r)); } args.push(format!("$val={}", id)); out.push(self.marker(&t, args, "after-call")); }
                    out.push(Stmt::Expr(parse_quote!(#id), None));
                }
                continue;
            }
            out.push(st);
            if !is_tail {
                for (i, mut args, recv) in found_a { let t = self.spec.after_call[i].1.clone(); if let Some(r) = recv { args.push(format!("$recv={}", r)); } out.push(self.marker(&t, args, "after-call")); }
            }
            if let Some((x, init)) = letk {
                if std::env::var("VX_DEBUG").is_ok() { eprintln!("vx: let {} = {}", x, init); for (p, _) in &self.spec.after_let { eprintln!("    pat {}", p); } }
                for (p, t) in self.spec.after_let.clone() {
                    if let Some(binds) = let_pat_match(&p, &init) {
                        let mut args = vec![format!("$x={}", x)];
                        for (n, v) in binds { args.push(format!("{}={}", n, v)); }
                        out.push(self.marker(&t, args, "after-let"));
                    }
                }
            }
            if join { if let Some(p) = self.probe() { out.push(p); } }
        }
        b.stmts = out;
    }
    fn visit_expr_if_mut(&mut self, i: &mut syn::ExprIf) {
        let cond = norm(&i.cond.to_token_stream().to_string());
        let dead = self.spec.dead_conds.iter().any(|(f, c)| *c == cond && (f == "-" || self.features.contains(f)));
        if dead {
            // probes inside a branch the contract declares (and the proof shows) unreachable are expected to verify
            let start = *self.probe_n;
            self.visit_expr_mut(&mut i.cond);
            self.visit_block_mut(&mut i.then_branch);
            if let Some(p) = self.probe() { i.then_branch.stmts.insert(0, p); }
            let end = *self.probe_n;
            for k in start..end { self.dead_probes.push(k); }
            if let Some((_, el)) = &mut i.else_branch { self.visit_expr_mut(el); if let Expr::Block(b) = &mut **el { if let Some(p) = self.probe() { b.block.stmts.insert(0, p); } } }
            return;
        }
        let dead_else = self.spec.dead_else.iter().any(|(f, c)| *c == cond && (f == "-" || self.features.contains(f)));
        if dead_else {
            self.visit_expr_mut(&mut i.cond);
            self.visit_block_mut(&mut i.then_branch);
            if let Some(p) = self.probe() { i.then_branch.stmts.insert(0, p); }
            let start = *self.probe_n;
            if let Some((_, el)) = &mut i.else_branch { self.visit_expr_mut(el); if let Expr::Block(b) = &mut **el { if let Some(p) = self.probe() { b.block.stmts.insert(0, p); } } }
            for k in start..*self.probe_n { self.dead_probes.push(k); }
            return;
        }
        visit_mut::visit_expr_if_mut(self, i);
        if let Some(p) = self.probe() { i.then_branch.stmts.insert(0, p); }
        if let Some((_, el)) = &mut i.else_branch { if let Expr::Block(b) = &mut **el { if let Some(p) = self.probe() { b.block.stmts.insert(0, p); } } }
    }
    fn visit_arm_mut(&mut self, a: &mut syn::Arm) {
        // rule B: an arm body that is a bare expression containing a hint anchor becomes a block `{ EXPR }` so that the
        // hint can be placed next to it (purely syntactic)
        if !matches!(&*a.body, Expr::Block(_)) {
            let all: Vec<(String, String)> = self.spec.before_call.iter().chain(self.spec.after_call.iter()).cloned().collect();
            let mut f = Finder { pats: &all, found: vec![] };
            syn::visit::Visit::visit_expr(&mut f, &a.body);
            if !f.found.is_empty() { let b = (*a.body).clone(); *a.body = parse_quote!({ #b }); }
        }
        // dead-arm: probes inside an arm the contract declares (and the proof shows) unreachable are expected to verify
        let pt: String = norm(&a.pat.to_token_stream().to_string()).chars().filter(|ch| !ch.is_ascii_digit()).collect();
        let dead = self.spec.dead_arms.iter().any(|(f, c)| *c == pt && (f == "-" || self.features.contains(f)));
        let start = *self.probe_n;
        visit_mut::visit_arm_mut(self, a);
        if let Expr::Block(b) = &mut *a.body { if let Some(p) = self.probe() { b.block.stmts.insert(0, p); } }
        if dead { for k in start..*self.probe_n { self.dead_probes.push(k); } }
    }
    fn visit_expr_return_mut(&mut self, r: &mut syn::ExprReturn) {
        visit_mut::visit_expr_return_mut(self, r);
        if let Some(e) = &mut r.expr { let inner = (**e).clone(); **e = self.wrap_ret(inner); }
    }
    fn visit_expr_while_mut(&mut self, w: &mut syn::ExprWhile) {
        let n = self.loop_n; self.loop_n += 1;
        visit_mut::visit_expr_while_mut(self, w);
        let lit = proc_macro2::Literal::usize_unsuffixed(n);
        self.loop_body_hints(n, &mut w.body);
        if let Some(p) = self.probe() { w.body.stmts.push(p); }
        w.body.stmts.insert(0, parse_quote!(__vx_loop!(#lit);));
    }
    fn visit_expr_loop_mut(&mut self, w: &mut syn::ExprLoop) {
        let n = self.loop_n; self.loop_n += 1;
        visit_mut::visit_expr_loop_mut(self, w);
        let lit = proc_macro2::Literal::usize_unsuffixed(n);
        self.loop_body_hints(n, &mut w.body);
        if let Some(p) = self.probe() { w.body.stmts.push(p); }
        w.body.stmts.insert(0, parse_quote!(__vx_loop!(#lit);));
    }
    fn visit_expr_for_loop_mut(&mut self, w: &mut syn::ExprForLoop) {
        let n = self.loop_n; self.loop_n += 1;
        visit_mut::visit_expr_for_loop_mut(self, w);
        let lit = proc_macro2::Literal::usize_unsuffixed(n);
        if let Some(p) = self.probe() { w.body.stmts.push(p); }
        w.body.stmts.insert(0, parse_quote!(__vx_loop!(#lit);));
    }
}

fn impl_header(i: &syn::ItemImpl) -> String {
    let ty = i.self_ty.to_token_stream().to_string();
    match &i.trait_ { Some((_, p, _)) => norm(&format!("{} for {}", p.to_token_stream(), ty)), None => norm(&ty) }
}

fn lower_only(args: &[String]) {
    let src = std::fs::read_to_string(&args[0]).unwrap();
    let mut file = syn::parse_file(&src).unwrap();
    let wanted: Vec<&str> = args[1..].iter().map(|s| s.as_str()).collect();
    let mut out = TokenStream::new();
    struct W<'a> { wanted: &'a [&'a str], out: &'a mut TokenStream }
    impl<'a> VisitMut for W<'a> {
        fn visit_impl_item_fn_mut(&mut self, f: &mut syn::ImplItemFn) {
            if self.wanted.contains(&f.sig.ident.to_string().as_str()) {
                let mut l = lower::Lower::new(vec![]);
                l.visit_block_mut(&mut f.block);
                f.attrs.retain(|a| !a.path().is_ident("doc"));
                f.to_tokens(self.out);
            }
        }
        fn visit_item_fn_mut(&mut self, f: &mut syn::ItemFn) {
            if self.wanted.contains(&f.sig.ident.to_string().as_str()) {
                let mut l = lower::Lower::new(vec![]);
                l.visit_block_mut(&mut f.block);
                f.attrs.retain(|a| !a.path().is_ident("doc"));
                f.to_tokens(self.out);
            }
        }
        fn visit_item_mod_mut(&mut self, m: &mut syn::ItemMod) { if m.ident != "test" { visit_mut::visit_item_mod_mut(self, m); } }
    }
    W { wanted: &wanted, out: &mut out }.visit_file_mut(&mut file);
    let tmp = std::env::temp_dir().join(format!("vx_{}_lower.rs", std::process::id()));
    std::fs::write(&tmp, format!("impl X {{\n{}\n}}", out)).unwrap();
    let _ = std::process::Command::new("rustfmt").arg("--edition").arg("2021").arg(&tmp).status();
    println!("{}", std::fs::read_to_string(&tmp).unwrap());
    let _ = std::fs::remove_file(&tmp);
}

// translation validation of rules L / P: the lowered text of every function under contract is written back into a copy of
// the real source files (nothing else is touched) so that the repository's own tests can be run against it
//   vx --lower-crate REPO DESTDIR unit.vspec...
fn lower_crate(args: &[String]) {
    let repo = &args[0]; let dest = &args[1];
    let mut want: BTreeMap<String, Vec<String>> = BTreeMap::new(); // file -> function names
    for vs in &args[2..] {
        let u = spec::parse_unit(&std::fs::read_to_string(vs).unwrap());
        for (src, takes) in &u.sources { for t in takes { match t {
            Take::Impl { fns, .. } => { for f in fns { if f != "*" && f != "consts" { want.entry(src.clone()).or_default().push(f.clone()); } } }
            Take::Item { kind, name } if kind == "fn" => want.entry(src.clone()).or_default().push(name.clone()),
            Take::Closure { fn_path, .. } => want.entry(src.clone()).or_default().push(fn_path.split("::").last().unwrap().to_string()),
            _ => {}
        } } }
    }
    let mut total = 0usize;
    for (src, names) in &want {
        let text = std::fs::read_to_string(format!("{}/{}", repo, src)).unwrap();
        let mut file = syn::parse_file(&text).unwrap();
        struct W<'a> { names: &'a [String], sites: usize, in_test: bool }
        impl<'a> W<'a> {
            fn lower_fn(&mut self, sig: &syn::Signature, block: &mut syn::Block) {
                if self.in_test || !self.names.contains(&sig.ident.to_string()) { return; }
                let vec_params: Vec<String> = sig.inputs.iter().filter_map(|a| match a { syn::FnArg::Typed(pt) => { let ty = pt.ty.to_token_stream().to_string(); if ty.starts_with("Vec <") { Some(pt.pat.to_token_stream().to_string()) } else { None } } _ => None }).collect();
                let mut l = lower::Lower::new(vec_params); l.plain_rust = true;
                l.visit_block_mut(block);
                self.sites += l.sites;
            }
        }
        impl<'a> VisitMut for W<'a> {
            fn visit_impl_item_fn_mut(&mut self, f: &mut syn::ImplItemFn) { let sig = f.sig.clone(); self.lower_fn(&sig, &mut f.block); }
            fn visit_item_fn_mut(&mut self, f: &mut syn::ItemFn) { let sig = f.sig.clone(); self.lower_fn(&sig, &mut f.block); }
            fn visit_item_mod_mut(&mut self, m: &mut syn::ItemMod) { let was = self.in_test; if m.ident == "test" || m.ident == "tests" { self.in_test = true; } visit_mut::visit_item_mod_mut(self, m); self.in_test = was; }
        }
        let mut w = W { names, sites: 0, in_test: false };
        w.visit_file_mut(&mut file);
        total += w.sites;
        // names markers are not Rust: drop them
        struct D;
        impl VisitMut for D { fn visit_block_mut(&mut self, b: &mut syn::Block) { b.stmts.retain(|s| !matches!(s, Stmt::Macro(m) if m.mac.path.is_ident("__vx_names"))); visit_mut::visit_block_mut(self, b); } }
        D.visit_file_mut(&mut file);
        let outp = format!("{}/{}", dest, src);
        std::fs::create_dir_all(std::path::Path::new(&outp).parent().unwrap()).unwrap();
        std::fs::write(&outp, file.to_token_stream().to_string()).unwrap();
        let _ = std::process::Command::new("rustfmt").arg("--edition").arg("2021").arg(&outp).status();
        eprintln!("vx: lowered {} ({} chains)", src, w.sites);
    }
    println!("{}", total);
}

pub struct FnOut {
    path: String, src: String, src_line: usize, contract_only: bool, from_unit: String,
    hints: usize, hint_kinds: BTreeMap<String, usize>, loops: usize, return_points: usize, probes: Vec<usize>, lowered_sites: usize, dead_probes: Vec<usize>,
}

struct Gen<'a> {
    emitted: std::collections::HashSet<String>, // item keys already emitted (units imported along two paths share datatypes)
    repo: &'a str,
    features: &'a [String],
    probes: bool,
    rules: rules::Rules,
    items_ts: TokenStream,
    all_hints: Vec<HintInst>,
    hint_base: usize,
    probe_n: usize,
    fns: Vec<FnOut>,
    specs: BTreeMap<String, FnSpec>,
    force_co: Vec<String>,
    shape_results: Vec<(String, bool, Vec<String>, String)>,
}

impl<'a> Gen<'a> {
    fn process_fn(&mut self, unit: &Unit, contract_only: bool, src: &str, tyname: Option<&str>, attrs: &mut Vec<syn::Attribute>, sig: &mut syn::Signature, block: &mut syn::Block, rename: &Option<(String, String)>) {
        let fname = sig.ident.to_string();
        let src_line = sig.ident.span().start().line;
        rules::clean_attrs(attrs, &mut self.rules);
        let mut path = match tyname { Some(t) => format!("{}::{}", t, fname), None => fname.clone() };
        if let Some((_, nn)) = rename { sig.ident = syn::Ident::new(nn, sig.ident.span()); path = format!("{}::{}", tyname.unwrap(), nn); }
        // rule M (callee side): the instance of a function with an `impl Iterator` parameter for a materialised vector
        let mut mono_params: Vec<String> = vec![];
        if let Some((_, pname)) = unit.mono_vec.iter().find(|(f, _)| *f == path) {
            let nn = format!("{}__vec", sig.ident);
            sig.ident = syn::Ident::new(&nn, sig.ident.span());
            path = match tyname { Some(t) => format!("{}::{}", t, nn), None => nn };
            for a in sig.inputs.iter_mut() {
                if let syn::FnArg::Typed(pt) = a {
                    if pt.pat.to_token_stream().to_string() == *pname {
                        // &mut impl Iterator<Item = T>  ->  &Vec<T>
                        let tys = pt.ty.to_token_stream().to_string();
                        let item = tys.split("Item =").nth(1).map(|x| x.trim().trim_end_matches('>').trim().to_string()).expect("mono-vec: no Item type");
                        let nt: syn::Type = syn::parse_str(&format!("&Vec<{}>", item)).expect("mono-vec type");
                        *pt.ty = nt;
                        mono_params.push(pname.clone());
                        *self.rules.dropped.entry("M:mono-vec".into()).or_default() += 1;
                    }
                }
            }
        }
        // rule G: ghost (tracked) parameter appended to the signature
        for (f, ptxt) in &unit.ghost_params { if *f == path { let a: syn::FnArg = syn::parse_str(ptxt).expect("ghost-param"); sig.inputs.push(a); *self.rules.dropped.entry("G:param".into()).or_default() += 1; } }
        // a function the verifier's front end rejected is kept by contract only (its obligations are then undecided)
        let forced = self.force_co.contains(&path);
        let contract_only = contract_only || forced;
        let spec = unit.fns.get(&path).cloned().unwrap_or_default();
        let mut fo = FnOut { path: path.clone(), src: src.to_string(), src_line, contract_only, from_unit: unit.name.clone(), hints: 0, hint_kinds: BTreeMap::new(), loops: 0, return_points: 0, probes: vec![], lowered_sites: 0, dead_probes: vec![] };
        // free function whose first parameter is a shared reference to the struct owning a former cell: it becomes `&mut`
        if tyname.is_none() && unit.refcell_mut_fns.contains(&path) {
            if let Some(syn::FnArg::Typed(pt)) = sig.inputs.first_mut() { if let syn::Type::Reference(r) = &mut *pt.ty { if r.mutability.is_none() { r.mutability = Some(Default::default()); *self.rules.dropped.entry("R:param-mut".into()).or_default() += 1; } } }
        }
        if !contract_only && (unit.refcell_mut_fns.contains(&path) || unit.refcell_mut_unless.iter().any(|(feat, f)| f == &path && !self.features.contains(feat))) { if let Some(syn::FnArg::Receiver(r)) = sig.inputs.first_mut() { *r = parse_quote!(&mut self); } }
        rules::sig_rules(sig, &mut self.rules);
        if contract_only {
            rules::alpha_rename_sig(sig, &mut self.rules);
            *block = parse_quote!({ unimplemented!() });
        } else {
            rules::BodyRules { rules: &mut self.rules, unit, features: self.features, tyname: tyname.map(|s| s.to_string()), fnpath: path.clone() }.visit_block_mut(block);
            let vec_params: Vec<String> = sig.inputs.iter().filter_map(|a| match a { syn::FnArg::Typed(pt) => { let ty = pt.ty.to_token_stream().to_string(); if ty.starts_with("Vec <") { Some(pt.pat.to_token_stream().to_string()) } else { None } } _ => None }).collect();
            let mut vec_params = vec_params; vec_params.extend(mono_params.iter().cloned());
            let mut l = lower::Lower::new(vec_params);
            l.visit_block_mut(block);
            fo.lowered_sites = l.sites;
            rules::alpha_rename(block, &mut self.rules);
            rules::alpha_rename_sig(sig, &mut self.rules);
            let mut hints = vec![];
            {
                let mut mk = Marker { spec: &spec, loop_n: 0, hint_n: self.hint_base, hints: &mut hints, probes: self.probes, probe_n: &mut self.probe_n, fn_probes: vec![], return_points: 0, hoist_n: 0, dead_probes: vec![], features: self.features.to_vec(), ret_ty: match &sig.output { syn::ReturnType::Type(_, t) if !matches!(**t, syn::Type::ImplTrait(_)) => Some((**t).clone()), _ => None } };
                mk.visit_block_mut(block);
                let has_ret = !matches!(sig.output, syn::ReturnType::Default);
                if has_ret { mk.mark_block_tail(block); }
                else {
                    // unit function: the `return` template (and the at-return postcondition asserts) go at the end of the body
                    if !spec.ret_hint.trim().is_empty() || !spec.ensures.is_empty() {
                        let falls_through = !matches!(block.stmts.last(), Some(Stmt::Expr(e, _)) if is_diverging_tail(e));
                        if falls_through { if let Some(Stmt::Expr(_, semi @ None)) = block.stmts.last_mut() { *semi = Some(Default::default()); } mk.return_points += 1; let m = mk.marker(&spec.ret_hint.clone(), vec!["()".to_string()], "return"); block.stmts.push(m); }
                    }
                    if let Some(p) = mk.probe() { block.stmts.push(p); }
                }
                if let Some(p) = mk.probe() { block.stmts.insert(0, p); }
                self.hint_base = mk.hint_n;
                fo.loops = mk.loop_n; fo.return_points = mk.return_points; fo.probes = mk.fn_probes.clone(); fo.dead_probes = mk.dead_probes.clone();
            }
            for h in &hints { if !h.template.trim().is_empty() { fo.hints += 1; *fo.hint_kinds.entry(h.kind.clone()).or_default() += 1; } }
            self.all_hints.extend(hints);
        }
        let lit = proc_macro2::Literal::string(&path);
        block.stmts.insert(0, parse_quote!(__vx_fn!(#lit);));
        self.specs.insert(path.clone(), spec);
        self.fns.push(fo);
    }

    fn take_unit(&mut self, unit: &Unit, contract_only: bool) {
        self.rules.extra_drop_derives = unit.drop_derives.clone();
        for (si, (src, takes)) in unit.sources.iter().enumerate() {
            if let Some(f) = &unit.source_feature[si] { if !self.features.contains(f) { continue; } }
            let text = std::fs::read_to_string(format!("{}/{}", self.repo, src)).unwrap_or_else(|e| { eprintln!("vx: LOST ANCHOR: cannot read {}: {}", src, e); std::process::exit(2) });
            let mut file = match syn::parse_file(&text) { Ok(f) => f, Err(e) => { eprintln!("vx: cannot parse {}: {}", src, e); std::process::exit(2) } };
            cfgstrip::strip_file(&mut file, self.features);
            for take in takes {
                let mut matched = false;
                // ---- rule C and shape obligations work on a function found by path
                if let Take::Closure { fn_path, .. } | Take::Shape { fn_path, .. } = take {
                    let (ty, fname) = fn_path.split_once("::").expect("Type::fn");
                    let mut target: Option<syn::ImplItemFn> = None;
                    for item in &file.items { if let Item::Impl(imp) = item { if imp.trait_.is_none() && norm(&imp.self_ty.to_token_stream().to_string()) == ty {
                        for ii in &imp.items { if let syn::ImplItem::Fn(f) = ii { if f.sig.ident == fname { target = Some(f.clone()); } } } } } }
                    let Some(tf) = target else { eprintln!("vx: LOST ANCHOR: fn {} not found in {}", fn_path, src); std::process::exit(2) };
                    // outermost closures in syntactic order
                    struct Cl { found: Vec<syn::ExprClosure> }
                    impl<'ast> syn::visit::Visit<'ast> for Cl { fn visit_expr_closure(&mut self, c: &'ast syn::ExprClosure) { self.found.push(c.clone()); } }
                    let mut cl = Cl { found: vec![] };
                    syn::visit::Visit::visit_block(&mut cl, &tf.block);
                    match take {
                        Take::Closure { index, new_path, sig, .. } => {
                            let Some(c) = cl.found.get(*index) else { eprintln!("vx: LOST ANCHOR: {} has no closure #{}", fn_path, index); std::process::exit(2) };
                            let (nty, nname) = new_path.split_once("::").unwrap();
                            let body = &c.body;
                            let fn_text = format!("pub fn {} {} {{ {} }}", nname, sig, body.to_token_stream());
                            let mut nf: syn::ImplItemFn = match syn::parse_str(&fn_text) { Ok(f) => f, Err(e) => { eprintln!("vx: cannot build lifted closure {}: {}", new_path, e); std::process::exit(2) } };
                            // every identifier bound by the closure's parameter patterns must be a parameter of the lifted function
                            struct Ids(Vec<String>);
                            impl<'ast> syn::visit::Visit<'ast> for Ids { fn visit_pat_ident(&mut self, p: &'ast syn::PatIdent) { self.0.push(p.ident.to_string()); } }
                            let mut ids = Ids(vec![]);
                            for p in c.inputs.iter() { syn::visit::Visit::visit_pat(&mut ids, p); }
                            let params: Vec<String> = nf.sig.inputs.iter().filter_map(|a| if let syn::FnArg::Typed(pt) = a { Some(pt.pat.to_token_stream().to_string()) } else { None }).collect();
                            for id in &ids.0 { if !id.starts_with('_') && !params.contains(id) && !params.contains(&format!("{}_", id)) { eprintln!("vx: LOST ANCHOR: closure #{} of {} binds `{}` which is not a parameter of {}", index, fn_path, id, new_path); std::process::exit(2); } }
                            // span for the source line: the closure's own position
                            let line = c.or1_token.span.start().line;
                            let mut attrs = vec![];
                            self.process_fn(unit, contract_only, src, Some(nty), &mut attrs, &mut nf.sig, &mut nf.block, &None);
                            if let Some(fo) = self.fns.last_mut() { fo.src_line = line; }
                            nf.attrs = attrs;
                            let nty_t: syn::Type = syn::parse_str(nty).unwrap();
                            let imp: syn::ItemImpl = parse_quote!(impl #nty_t { #nf });
                            imp.to_tokens(&mut self.items_ts);
                            *self.rules.dropped.entry("C:lifted-closure".into()).or_default() += 1;
                        }
                        Take::Shape { props, expected, .. } => {
                            if !contract_only {
                                // body text with outermost closures replaced by __Ck__
                                struct Rep { k: usize }
                                impl VisitMut for Rep { fn visit_expr_mut(&mut self, e: &mut Expr) { if let Expr::Closure(_) = e { let id = quote::format_ident!("__C{}__", self.k); self.k += 1; *e = parse_quote!(#id); } else { visit_mut::visit_expr_mut(self, e); } } }
                                let mut b = tf.block.clone();
                                rules::strip_logging(&mut b);
                                Rep { k: 0 }.visit_block_mut(&mut b);
                                let got = norm(&b.to_token_stream().to_string()).replace(",)", ")");
                                let ok = got == *expected;
                                if !ok { eprintln!("vx: note: shape of {} is\n  {}\nexpected\n  {}", fn_path, got, expected); }
                                self.shape_results.push((format!("{}::shape-body", fn_path), ok, props.clone(), format!("{}:{}", src, tf.sig.ident.span().start().line)));
                            }
                        }
                        _ => {}
                    }
                    continue;
                }
                if let Take::Item { kind, name } = take { if self.emitted.contains(&format!("{}:{}", kind, name)) { continue; } }
                for item in &file.items {
                    let mut item = item.clone();
                    match (&mut item, take) {
                        (Item::Struct(s), Take::Item { kind, name }) if kind == "struct" && s.ident == name => {
                            // shape obligations on field attributes (checked on the original attributes, before rule D drops them)
                            if !contract_only {
                                for (st, fl, req, props) in &unit.shape_attrs {
                                    if s.ident == st {
                                        let (neg, want) = match req.strip_prefix('!') { Some(w) => (true, w.to_string()), None => (false, req.clone()) };
                                        let mut found_field = false; let mut has = false;
                                        for f in s.fields.iter() { if f.ident.as_ref().map(|i| i == fl).unwrap_or(false) { found_field = true;
                                            for a in &f.attrs { let t = norm(&a.meta.to_token_stream().to_string()); if t == want || (t.starts_with("serde(") && want.starts_with("serde(") && t[6..t.len()-1].split(',').any(|p| p == &want[6..want.len()-1])) { has = true; } } } }
                                        let ok = found_field && (has != neg);
                                        self.shape_results.push((format!("{}.{}::shape-attr@{}", st, fl, req), ok, props.clone(), format!("{}:{}", src, s.ident.span().start().line)));
                                    }
                                }
                            }
                            rules::clean_attrs(&mut s.attrs, &mut self.rules);
                            for f in s.fields.iter_mut() { rules::clean_attrs(&mut f.attrs, &mut self.rules); f.vis = parse_quote!(pub); }
                            rules::BodyRules { rules: &mut self.rules, unit, features: self.features, tyname: None, fnpath: String::new() }.visit_item_struct_mut(s);
                            for (st, feat, fname, ty, _init) in &unit.ghost_fields {
                                if s.ident == st && (feat == "-" || self.features.contains(feat)) {
                                    if let syn::Fields::Named(n) = &mut s.fields {
                                        let id = syn::Ident::new(fname, proc_macro2::Span::call_site());
                                        let t: syn::Type = syn::parse_str(ty).expect("ghost-field type");
                                        let f: syn::Field = syn::parse::Parser::parse2(syn::Field::parse_named, quote::quote!(pub #id: #t)).unwrap();
                                        n.named.push(f);
                                    }
                                }
                            }
                            s.vis = parse_quote!(pub);
                            s.to_tokens(&mut self.items_ts); matched = true; self.emitted.insert(format!("struct:{}", s.ident));
                        }
                        (Item::Enum(s), Take::Item { kind, name }) if kind == "enum" && s.ident == name => {
                            rules::clean_attrs(&mut s.attrs, &mut self.rules);
                            if unit.no_structural.contains(name) { rules::strip_derives(&mut s.attrs, &["Structural", "PartialEq", "Eq", "Clone"]); }
                            for v in s.variants.iter_mut() { rules::clean_attrs(&mut v.attrs, &mut self.rules); for f in v.fields.iter_mut() { rules::clean_attrs(&mut f.attrs, &mut self.rules); } }
                            s.vis = parse_quote!(pub);
                            s.to_tokens(&mut self.items_ts); matched = true; self.emitted.insert(format!("enum:{}", s.ident));
                        }
                        (Item::Type(s), Take::Item { kind, name }) if kind == "type" && s.ident == name => { rules::clean_attrs(&mut s.attrs, &mut self.rules); s.to_tokens(&mut self.items_ts); matched = true; self.emitted.insert(format!("type:{}", s.ident)); }
                        (Item::Const(s), Take::Item { kind, name }) if kind == "const" && s.ident == name => { rules::clean_attrs(&mut s.attrs, &mut self.rules); s.to_tokens(&mut self.items_ts); matched = true; self.emitted.insert(format!("const:{}", s.ident)); }
                        (Item::Fn(f), Take::Item { kind, name }) if kind == "fn" && f.sig.ident == name => {
                            matched = true; self.emitted.insert(format!("fn:{}", f.sig.ident));
                            self.process_fn(unit, contract_only, src, None, &mut f.attrs, &mut f.sig, &mut f.block, &None);
                            f.vis = parse_quote!(pub);
                            f.to_tokens(&mut self.items_ts);
                        }
                        (Item::Impl(imp), Take::Impl { header, fns, inherent_as, self_as }) if &impl_header(imp) == header => {
                            if let Some(n) = self_as { let t: syn::Type = syn::parse_str(n).unwrap(); *imp.self_ty = t; }
                            let tyname = imp.self_ty.to_token_stream().to_string().replace(' ', "");
                            let mut kept = vec![];
                            let mut any_fn = false;
                            let mut dup_fn = false;
                            // rule T: associated types of a trait impl emitted as inherent are substituted (`Self::Item` -> its definition)
                            let assoc: Vec<(String, syn::Type)> = imp.items.iter().filter_map(|ii| if let syn::ImplItem::Type(t) = ii { Some((t.ident.to_string(), t.ty.clone())) } else { None }).collect();
                            if inherent_as.is_some() && !assoc.is_empty() {
                                struct S<'a> { assoc: &'a [(String, syn::Type)] }
                                impl<'a> VisitMut for S<'a> {
                                    fn visit_type_mut(&mut self, t: &mut syn::Type) {
                                        visit_mut::visit_type_mut(self, t);
                                        if let syn::Type::Path(p) = t { if p.qself.is_none() && p.path.segments.len() == 2 && p.path.segments[0].ident == "Self" {
                                            let n = p.path.segments[1].ident.to_string();
                                            if let Some((_, ty)) = self.assoc.iter().find(|(a, _)| *a == n) { *t = ty.clone(); }
                                        } }
                                    }
                                }
                                S { assoc: &assoc }.visit_item_impl_mut(imp);
                            }
                            // rule M (generic closure parameters): one specialised copy per `mono-fn` directive
                            let mut extra: Vec<syn::ImplItemFn> = vec![];
                            for ii in imp.items.iter() { if let syn::ImplItem::Fn(f) = ii {
                                let opath = format!("{}::{}", tyname, f.sig.ident);
                                for (orig, newn, maps) in &unit.mono_fns { if *orig == opath && fns.contains(&newn.split("::").last().unwrap().to_string()) {
                                    let mut g = f.clone();
                                    g.sig.ident = syn::Ident::new(newn.split("::").last().unwrap(), g.sig.ident.span());
                                    g.sig.generics = Default::default();
                                    let kept: Vec<syn::FnArg> = g.sig.inputs.iter().cloned().filter(|a| match a { syn::FnArg::Typed(pt) => !maps.iter().any(|(k, _)| pt.pat.to_token_stream().to_string() == *k), _ => true }).collect();
                                    g.sig.inputs = kept.into_iter().collect();
                                    struct Sub<'a> { maps: &'a [(String, String)] }
                                    impl<'a> VisitMut for Sub<'a> { fn visit_expr_call_mut(&mut self, c: &mut syn::ExprCall) {
                                        visit_mut::visit_expr_call_mut(self, c);
                                        let f = c.func.to_token_stream().to_string();
                                        if let Some((_, v)) = self.maps.iter().find(|(k, _)| *k == f) { let nf: Expr = syn::parse_str(v).unwrap(); *c.func = nf; }
                                    } }
                                    Sub { maps }.visit_block_mut(&mut g.block);
                                    *self.rules.dropped.entry("M:mono-fn".into()).or_default() += 1;
                                    extra.push(g);
                                } }
                            } }
                            let all_items: Vec<syn::ImplItem> = imp.items.drain(..).chain(extra.into_iter().map(syn::ImplItem::Fn)).collect();
                            for ii in all_items {
                                match ii {
                                    syn::ImplItem::Fn(mut f) => {
                                        let fname = f.sig.ident.to_string();
                                        if !(fns.iter().any(|x| x == "*") || fns.contains(&fname)) { continue; }
                                        let key = match inherent_as { Some((_, nn)) => format!("implfn:{}::{}", tyname, nn), None => format!("implfn:{}::{}::{}", imp.trait_.as_ref().map(|t| norm(&t.1.to_token_stream().to_string())).unwrap_or_default(), tyname, fname) };
                                        if !self.emitted.insert(key) { dup_fn = true; continue; }
                                        any_fn = true;
                                        self.process_fn(unit, contract_only, src, Some(&tyname), &mut f.attrs, &mut f.sig, &mut f.block, inherent_as);
                                        if imp.trait_.is_none() || inherent_as.is_some() { f.vis = parse_quote!(pub); }
                                        kept.push(syn::ImplItem::Fn(f));
                                    }
                                    syn::ImplItem::Const(mut c) => { if fns.iter().any(|x| x == "*" || x == "consts") && self.emitted.insert(format!("implconst:{}::{}", tyname, c.ident)) { rules::clean_attrs(&mut c.attrs, &mut self.rules); c.vis = parse_quote!(pub); kept.push(syn::ImplItem::Const(c)); } }
                                    syn::ImplItem::Type(t) => { if inherent_as.is_none() { kept.push(syn::ImplItem::Type(t)) } }
                                    _ => {}
                                }
                            }
                            if !any_fn && kept.is_empty() { if dup_fn { matched = true; } continue; } // another impl block with the same header may hold the functions
                            matched = true;
                            rules::clean_attrs(&mut imp.attrs, &mut self.rules);
                            imp.items = kept;
                            if inherent_as.is_some() { imp.trait_ = None; }
                            imp.to_tokens(&mut self.items_ts);
                        }
                        _ => {}
                    }
                }
                if !matched { eprintln!("vx: LOST ANCHOR: {:?} not found in {}", take, src); std::process::exit(2); }
                // every function named in an impl take must have been found
                if let Take::Impl { header, fns, .. } = take {
                    for f in fns { if f != "*" && f != "consts" {
                        let ok = self.fns.iter().any(|fo| fo.src == *src && (fo.path.ends_with(&format!("::{}", f)) || fo.path.ends_with(&format!("::{}__vec", f)) || take_renamed(take).map(|n| fo.path.ends_with(&format!("::{}", n))).unwrap_or(false)));
                        if !ok { eprintln!("vx: LOST ANCHOR: fn {} of impl {} not found in {}", f, header, src); std::process::exit(2); }
                    } }
                }
            }
        }
    }
}
fn take_renamed(t: &Take) -> Option<String> { if let Take::Impl { inherent_as: Some((_, n)), .. } = t { Some(n.clone()) } else { None } }

fn main() {
    let mut args: Vec<String> = std::env::args().skip(1).collect();
    if args.first().map(|s| s.as_str()) == Some("--lower") { lower_only(&args[1..]); return; }
    if args.first().map(|s| s.as_str()) == Some("--lower-crate") { lower_crate(&args[1..]); return; }
    let mut features: Vec<String> = vec![];
    let mut probes = false;
    let mut force_co: Vec<String> = vec![];
    let mut pos: Vec<String> = vec![];
    while !args.is_empty() {
        let a = args.remove(0);
        if a == "--cfg" { features.push(args.remove(0)); } else if a == "--probes" { probes = true; } else if a == "--contract-only" { force_co.push(args.remove(0)); } else { pos.push(a); }
    }
    if pos.len() != 3 { eprintln!("usage: vx [--cfg FEATURE]... [--probes] REPO UNIT.vspec OUT.rs"); std::process::exit(2); }
    let repo = &pos[0];
    let spec_path = std::path::Path::new(&pos[1]);
    let base = spec_path.parent().unwrap();
    let mut unit = spec::parse_unit(&std::fs::read_to_string(spec_path).unwrap());
    // conditional loop specs: drop the ones whose feature condition is false
    for (_, fs) in unit.fns.iter_mut() {
        let drop: Vec<usize> = fs.loops_cond.iter().filter(|(_, c)| { let (neg, f) = match c.strip_prefix('!') { Some(f) => (true, f.to_string()), None => (false, c.to_string()) }; features.contains(&f) == neg }).map(|(n, _)| *n).collect();
        for n in drop { fs.loops.remove(&n); }
    }
    let mut rules0 = rules::Rules::default(); rules0.extra_drop_derives = unit.drop_derives.clone();
    let mut gen = Gen { emitted: Default::default(), repo, features: &features, probes, rules: rules0, items_ts: TokenStream::new(), all_hints: vec![], hint_base: 0, probe_n: 1, fns: vec![], specs: BTreeMap::new(), force_co: force_co.clone(), shape_results: vec![] };
    let mut pre: Vec<String> = vec![];
    let mut inside: Vec<String> = vec![];
    // the unit's own include order wins; includes of imported units that it does not list are appended
    for p in &unit.pre { if !pre.contains(p) { pre.push(p.clone()); } }
    for p in &unit.inside { if !inside.contains(p) { inside.push(p.clone()); } }
    // imports are transitive (depth first, each unit once)
    let mut todo: Vec<String> = vec![];
    fn collect(base: &std::path::Path, imps: &[String], todo: &mut Vec<String>) {
        for imp in imps {
            if todo.contains(imp) { continue; }
            let iu = spec::parse_unit(&std::fs::read_to_string(base.join(imp)).unwrap());
            collect(base, &iu.imports, todo);
            if !todo.contains(imp) { todo.push(imp.clone()); }
        }
    }
    collect(base, &unit.imports, &mut todo);
    // include order: the most derived importing unit lists the complete, correctly ordered set first
    for imp in todo.iter().rev() {
        let iu = spec::parse_unit(&std::fs::read_to_string(base.join(imp)).unwrap());
        for p in &iu.pre { if !pre.contains(p) { pre.push(p.clone()); } }
        for p in &iu.inside { if !inside.contains(p) { inside.push(p.clone()); } }
    }
    for imp in &todo {
        let iu = spec::parse_unit(&std::fs::read_to_string(base.join(imp)).unwrap());
        gen.take_unit(&iu, true);
    }
    gen.take_unit(&unit, false);

    // format the plain-Rust items
    let tmp = std::env::temp_dir().join(format!("vx_{}_items.rs", std::process::id()));
    std::fs::write(&tmp, gen.items_ts.to_string()).unwrap();
    let st = std::process::Command::new("rustfmt").arg("--edition").arg("2021").arg("--config").arg("max_width=160").arg(&tmp).status().unwrap();
    if !st.success() { eprintln!("vx: rustfmt failed on {}", tmp.display()); std::process::exit(2); }
    let formatted = std::fs::read_to_string(&tmp).unwrap();
    let _ = std::fs::remove_file(&tmp);

    // ---------------- text-level splice
    let lines: Vec<String> = formatted.lines().map(|s| s.to_string()).collect();
    let hints: BTreeMap<usize, &HintInst> = gen.all_hints.iter().map(|h| (h.id, h)).collect();
    let fn_by_path: BTreeMap<String, &FnOut> = gen.fns.iter().map(|f| (f.path.clone(), f)).collect();
    // pre-pass: generated loop-local names per (function, loop ordinal)
    let mut loop_names: BTreeMap<(String, usize), BTreeMap<String, String>> = BTreeMap::new();
    {
        let mut cf = String::new();
        for (li, l) in lines.iter().enumerate() {
            let t = l.trim();
            if let Some(rest) = t.strip_prefix("__vx_fn!(\"") { cf = rest.trim_end_matches("\");").to_string(); }
            if let Some(rest) = t.strip_prefix("__vx_loop!(") {
                let n: usize = rest.trim_end_matches(");").parse().unwrap();
                // the names marker follows (possibly after a loop-start hint marker)
                for lj in li + 1..(li + 4).min(lines.len()) {
                    let u = lines[lj].trim();
                    if let Some(r) = u.strip_prefix("__vx_names!(") {
                        let mut mp = BTreeMap::new();
                        for pair in r.trim_end_matches(");").split(',') { if let Some((a, b)) = pair.split_once('=') { mp.insert(a.trim().to_string(), b.trim().to_string()); } }
                        loop_names.insert((cf.clone(), n), mp);
                        break;
                    }
                    if !u.starts_with("__vx_hint!(") { break; }
                }
            }
        }
    }
    let subst_names = |text: &str, f: &str, cur: Option<usize>| -> String {
        let mut s = text.to_string();
        // $name@N first, then plain $name for the current loop
        for ((ff, n), mp) in &loop_names { if ff == f { for (a, b) in mp { s = s.replace(&format!("${}@{}", a, n), b); } } }
        if let Some(c) = cur { if let Some(mp) = loop_names.get(&(f.to_string(), c)) {
            let mut keys: Vec<&String> = mp.keys().collect(); keys.sort_by(|a, b| b.len().cmp(&a.len()));
            for a in keys { s = replace_word(&s, &format!("${}", a), &mp[a]); }
        } }
        s
    };
    let mut cur_fn: Option<String> = None;
    let mut out: Vec<String> = vec![];
    let mut i = 0;
    let mut loop_specs_used: BTreeMap<String, usize> = BTreeMap::new();
    let mut shared_recv: BTreeMap<String, bool> = BTreeMap::new();
    while i < lines.len() {
        let l = lines[i].clone();
        let t = l.trim();
        if let Some(rest) = t.strip_prefix("__vx_fn!(\"") {
            let path = rest.trim_end_matches("\");").to_string();
            cur_fn = Some(path.clone());
            let spec = gen.specs.get(&path).cloned().unwrap_or_default();
            let fo = fn_by_path[&path];
            let mut h = out.len() - 1;
            while !(out[h].contains("fn ") && (out[h].trim_start().starts_with("fn ") || out[h].trim_start().starts_with("pub fn ") || out[h].trim_start().starts_with("pub(crate) fn ") || out[h].trim_start().starts_with("pub(super) fn "))) { h -= 1; }
            let mut header: String = out[h..].join("\n");
            out.truncate(h);
            let brace = header.rfind('{').unwrap();
            header.truncate(brace);
            let mut header = header.trim_end().to_string();
            let has_ret = header.contains("->");
            let rname = spec.ret.clone().unwrap_or("r".to_string());
            if has_ret { let p = header.rfind("->").unwrap(); let ty = header[p + 2..].trim().to_string(); header.truncate(p); header.push_str(&format!("-> ({}: {})", rname, ty)); }
            out.push(format!("// @vx fn {} src={}:{} unit={} contract_only={}", path, fo.src, fo.src_line, fo.from_unit, fo.contract_only));
            if fo.contract_only { out.push("#[verifier::external_body]".to_string()); }
            if !spec.attrs.trim().is_empty() && !fo.contract_only { out.push(spec.attrs.trim_end().to_string()); }
            let mut_self = header.contains("&mut self");
            out.push(header);
            let fixr = |c: &String| -> String { if mut_self { c.clone() } else { c.replace("*old(self)", "*self").replace("old(self)", "self").replace("final(self)", "self") } };
            let req = spec::join_clauses(&spec.requires.iter().map(fixr).collect::<Vec<_>>());
            let ens = spec::join_clauses(&spec.ensures.iter().map(|c| fixr(&c.text)).collect::<Vec<_>>());
            shared_recv.insert(path.clone(), !mut_self);
            for (kw, body) in [("requires", &req), ("ensures", &ens)] {
                if !body.trim().is_empty() { out.push(format!("        {}", kw)); out.push(body.trim_end().to_string()); }
            }
            if !spec.decreases.trim().is_empty() && !fo.contract_only { out.push("        decreases".to_string()); out.push(spec.decreases.trim_end().to_string()); }
            out.push("    {".to_string());
            if !fo.contract_only {
                if probes { out.push("let ghost __vp: int = arbitrary();".to_string()); }
                if !spec.start.trim().is_empty() { out.push(cfg_filter_text(&spec.start, &features).trim_end().to_string()); }
            }
            i += 1; continue;
        }
        if t.starts_with("__vx_names!(") { i += 1; continue; }
        if let Some(rest) = t.strip_prefix("__vx_loop!(") {
            let n: usize = rest.trim_end_matches(");").parse().unwrap();
            let spec = cur_fn.as_ref().and_then(|f| gen.specs.get(f)).cloned().unwrap_or_default();
            if let Some(ls) = spec.loops.get(&n) {
                let mut h = out.len() - 1;
                while !out[h].trim_end().ends_with('{') { h -= 1; }
                let hl = out[h].clone();
                let cut = hl.rfind('{').unwrap();
                out[h] = hl[..cut].trim_end().to_string();
                out.push(subst_names(&cfg_filter_text(ls, &features), cur_fn.as_ref().unwrap(), Some(n)).trim_end().to_string());
                out.push("        {".to_string());
                *loop_specs_used.entry(cur_fn.clone().unwrap()).or_default() += 1;
            }
            i += 1; continue;
        }
        if let Some(rest) = t.strip_prefix("__vx_hint!(") {
            let id: usize = rest.trim_end_matches(");").parse().unwrap();
            let h = hints[&id];
            let mut s = h.template.clone();
            let mut named: Vec<(String, String)> = vec![];
            let mut positional: Vec<String> = vec![];
            for a in &h.args { if a.starts_with('$') { if let Some((n, v)) = a.split_once('=') { named.push((n.to_string(), v.to_string())); continue; } } positional.push(a.clone()); }
            named.sort_by(|a, b| b.0.len().cmp(&a.0.len()));
            for (n, v) in &named { s = s.replace(n.as_str(), v); }
            for (k, a) in positional.iter().enumerate().rev() { s = s.replace(&format!("${}", k), a); }
            s = s.replace("$ret", "__ret");
            let cur_loop: Option<usize> = h.args.iter().find_map(|a| a.strip_prefix("$loop=").and_then(|x| x.parse().ok()));
            let mut s = subst_names(&cfg_filter_text(&s, &features), cur_fn.as_ref().map(|x| x.as_str()).unwrap_or(""), cur_loop);
            if *shared_recv.get(cur_fn.as_ref().unwrap_or(&String::new())).unwrap_or(&false) { s = s.replace("*old(self)", "*self").replace("old(self)", "self"); }
            if !s.trim().is_empty() { out.push(format!("// @vx hint {} {}", h.kind, id)); out.push(s.trim_end().to_string()); out.push("// @vx endhint".to_string()); }
            if h.kind == "return" {
                // at-return: every postcondition clause asserted at every return point (names the failing path)
                if let Some(spec) = cur_fn.as_ref().and_then(|f| gen.specs.get(f)) {
                    if !spec.no_autopost && !spec.ensures.is_empty() {
                        let rname = spec.ret.clone().unwrap_or("r".to_string());
                        out.push(format!("// @vx hint autopost {}", id));
                        out.push("proof {".to_string());
                        for c in &spec.ensures {
                            let mut t = autopost_text(&c.text, &rname);
                            if *shared_recv.get(cur_fn.as_ref().unwrap()).unwrap_or(&false) { t = t.replace("*old(self)", "*self").replace("old(self)", "self"); }
                            out.push(format!("// @props {}", c.props.join(" ")));
                            out.push(format!("assert({});", t));
                        }
                        out.push("}".to_string());
                        out.push("// @vx endhint".to_string());
                    }
                }
            }
            i += 1; continue;
        }
        if let Some(rest) = t.strip_prefix("__vx_probe!(") {
            let id: usize = rest.trim_end_matches(");").parse().unwrap();
            out.push(format!("proof {{ assert(__vp != {}int); }} // @vx probe {}", id, id));
            i += 1; continue;
        }
        out.push(l);
        i += 1;
    }
    // a loop spec whose ordinal does not exist is a lost anchor
    for (path, spec) in &gen.specs {
        let fo = fn_by_path[path];
        if fo.contract_only { continue; }
        for n in spec.loops.keys() { if *n >= fo.loops { eprintln!("vx: LOST ANCHOR: loop {} of {} does not exist (function has {} loops)", n, path, fo.loops); std::process::exit(2); } }
    }
    for (path, fs) in &unit.fns { if !gen.specs.contains_key(path) {
        if let Some(c) = &fs.cfg { let (neg, f) = match c.strip_prefix('!') { Some(f) => (true, f), None => (false, c.as_str()) }; if features.contains(&f.to_string()) == neg { continue; } } eprintln!("vx: LOST ANCHOR: contract for {} matches no extracted function", path); std::process::exit(2); } }
    // ---------------- assemble
    let mut text = String::new();
    for p in &pre { text.push_str(&std::fs::read_to_string(base.join(p)).unwrap()); text.push('\n'); }
    text.push_str("verus! {\n");
    for p in &inside { text.push_str(&format!("// @vx speclib {}\n", p)); text.push_str(&std::fs::read_to_string(base.join(p)).unwrap()); text.push('\n'); }
    text.push_str("// @vx items\n");
    text.push_str(&out.join("\n"));
    text.push_str("\n// @vx end-items\n} // verus!\nfn main() {}\n");
    std::fs::write(&pos[2], &text).unwrap();

    // ---------------- sidecar
    let mut jf = vec![];
    for f in &gen.fns {
        let spec = &gen.specs[&f.path];
        let props = if spec.props.is_empty() { unit_props_for(&unit, &f.from_unit) } else { spec.props.clone() };
        jf.push(J::obj(vec![
            ("path", J::s(&f.path)), ("src", J::s(&f.src)), ("src_line", J::n(f.src_line)), ("contract_only", J::B(f.contract_only)), ("forced_contract_only", J::B(force_co.contains(&f.path))), ("unit", J::s(&f.from_unit)),
            ("props", J::A(props.iter().map(|p| J::s(p)).collect())),
            ("kind_props", J::O(spec.kind_props.iter().map(|(k, v)| (k.clone(), J::A(v.iter().map(|p| J::s(p)).collect()))).collect())),
            ("requires", J::A(spec.requires.iter().map(|c| J::s(c.trim())).collect())),
            ("ensures", J::A(spec.ensures.iter().map(|c| J::obj(vec![("text", J::s(c.text.trim())), ("props", J::A(c.props.iter().map(|p| J::s(p)).collect()))])).collect())),
            ("decreases", J::B(!spec.decreases.trim().is_empty())),
            ("loops", J::n(f.loops)), ("loop_specs", J::n(*loop_specs_used.get(&f.path).unwrap_or(&0))),
            ("loop_clauses", J::n(spec.loops.values().map(|l| spec::count_loop_clauses(l)).sum())),
            ("hints", J::n(f.hints)), ("hint_kinds", J::O(f.hint_kinds.iter().map(|(k, v)| (k.clone(), J::n(*v))).collect())),
            ("hint_asserts", J::n(count_asserts(spec, f))),
            ("return_points", J::n(f.return_points)), ("lowered_sites", J::n(f.lowered_sites)),
            ("probes", J::A(f.probes.iter().map(|p| J::n(*p)).collect())),
            ("dead_probes", J::A(f.dead_probes.iter().map(|p| J::n(*p)).collect())),
            ("loop_names", J::O(loop_names.iter().filter(|((ff, _), _)| *ff == f.path).map(|((_, n), mp)| (n.to_string(), J::O(mp.iter().map(|(a, b)| (a.clone(), J::s(b))).collect()))).collect())),
        ]));
    }
    // trusted scan of the generated text
    let mut trusted = vec![];
    let tl: Vec<&str> = text.lines().collect();
    let mut origin = String::from("prelude");
    for (k, line) in tl.iter().enumerate() {
        let t = line.trim();
        if let Some(r) = t.strip_prefix("// @vx speclib ") { origin = format!("speclib:{}", r); }
        if t.starts_with("// @vx items") { origin = "items".into(); }
        if let Some(r) = t.strip_prefix("// @vx fn ") { origin = format!("fn:{}", r.split_whitespace().next().unwrap()); }
        for kw in ["assume(", "admit(", "external_body", "assume_specification", "verifier::external", "exec_allows_no_decreases_clause", "external_type_specification", "external_fn_specification"] {
            if t.contains(kw) && !t.starts_with("//") {
                // name: next line that has `fn ` / `struct ` or the line itself
                let mut name = t.to_string();
                for j in k..(k + 4).min(tl.len()) { let u = tl[j].trim(); if u.contains("fn ") || u.contains("struct ") || u.contains("assume_specification") { name = u.chars().take(200).collect(); break; } }
                trusted.push(J::obj(vec![("kind", J::s(kw.trim_end_matches('('))), ("line", J::n(k + 1)), ("origin", J::s(&origin)), ("item", J::s(&name))]));
                break;
            }
        }
    }
    let side = J::obj(vec![
        ("unit", J::s(&unit.name)), ("features", J::A(features.iter().map(|f| J::s(f)).collect())), ("probes", J::B(probes)),
        ("n_probes", J::n(gen.probe_n - 1)),
        ("functions", J::A(jf)),
        ("rules", J::obj(vec![
            ("dropped", J::O(gen.rules.dropped.iter().map(|(k, v)| (k.clone(), J::n(*v))).collect())),
            ("outlined", J::O(gen.rules.outlined.iter().map(|(k, v)| (k.clone(), J::n(*v))).collect())),
            ("renamed", J::O(gen.rules.renamed.iter().map(|(k, v)| (k.clone(), J::n(*v))).collect())),
            ("lowered_sites", J::n(gen.fns.iter().map(|f| f.lowered_sites).sum())),
        ])),
        ("trusted", J::A(trusted)),
        ("shape_obligations", J::A(gen.shape_results.iter().map(|(n, ok, props, site)| J::obj(vec![("name", J::s(n)), ("ok", J::B(*ok)), ("props", J::A(props.iter().map(|p| J::s(p)).collect())), ("site", J::s(site))])).collect())),
        ("lines", J::n(tl.len())),
    ]);
    std::fs::write(format!("{}.json", pos[2]), side.to_string()).unwrap();
    for f in &gen.fns {
        if f.contract_only { continue; }
        let spec = &gen.specs[&f.path];
        let n_tpl = spec.before_call.len() + spec.after_call.len() + spec.after_let.len() + spec.before_if.len() + spec.then_start.len();
        let inst: usize = f.hint_kinds.iter().filter(|(k, _)| *k == "before-call" || *k == "after-call" || *k == "after-let" || *k == "before-if" || *k == "then-start").map(|(_, v)| *v).sum();
        if n_tpl > 0 && inst < n_tpl { eprintln!("vx: note: {} has {} call/let hint templates but only {} instantiations (an anchor matches nothing?)", f.path, n_tpl, inst); }
    }
    eprintln!("vx: unit {} functions={} (contract-only {}) hints={} probes={} outlined={:?}", unit.name, gen.fns.len(), gen.fns.iter().filter(|f| f.contract_only).count(), gen.fns.iter().map(|f| f.hints).sum::<usize>(), gen.probe_n - 1, gen.rules.outlined);
}

// evaluate `#[cfg(..)]` lines inside hint templates / loop specs: the line is removed; when the condition is false
// the statement that follows (a brace-balanced block, or a single line ending in `;` / `,`) is removed too
fn cfg_filter_text(text: &str, feats: &[String]) -> String {
    let lines: Vec<&str> = text.lines().collect();
    let mut out: Vec<String> = vec![];
    let mut i = 0;
    while i < lines.len() {
        let t = lines[i].trim();
        if t.starts_with("#[cfg(") && t.ends_with(")]") {
            let inner = &t[2..t.len() - 1];
            let meta: syn::Meta = syn::parse_str(inner).expect("cfg in template");
            let ok = match &meta { syn::Meta::List(l) => { let m2: syn::Meta = l.parse_args().expect("cfg arg"); cfgstrip::eval_meta(&m2, feats) } _ => false };
            i += 1;
            if !ok {
                // skip one statement
                let mut depth = 0i32; let mut started = false;
                while i < lines.len() {
                    for c in lines[i].chars() { if c == '{' { depth += 1; started = true; } else if c == '}' { depth -= 1; } }
                    let lt = lines[i].trim_end();
                    i += 1;
                    if started && depth <= 0 { break; }
                    if !started && (lt.ends_with(';') || lt.ends_with(',')) { break; }
                }
            }
            continue;
        }
        out.push(lines[i].to_string());
        i += 1;
    }
    out.join("\n")
}

// replace `pat` (e.g. `$k`) only where it is not followed by an identifier character or `@`
fn replace_word(s: &str, pat: &str, to: &str) -> String {
    let mut out = String::new();
    let mut rest = s;
    while let Some(p) = rest.find(pat) {
        let mut it = rest[p + pat.len()..].chars();
        let after = it.next(); let after2 = it.next();
        out.push_str(&rest[..p]);
        let is_ref = after == Some('@') && after2.map(|c| c.is_ascii_digit()).unwrap_or(false);
        if after.map(|c| c.is_alphanumeric() || c == '_').unwrap_or(false) || is_ref { out.push_str(pat); } else { out.push_str(to); }
        rest = &rest[p + pat.len()..];
    }
    out.push_str(rest);
    out
}
// `final(x)` -> `x`, result name -> `__ret` (identifier-boundary aware)
fn autopost_text(clause: &str, rname: &str) -> String {
    let mut s = String::new();
    let b: Vec<char> = clause.chars().collect();
    let mut i = 0;
    let is_id = |c: char| c.is_alphanumeric() || c == '_';
    while i < b.len() {
        if is_id(b[i]) && (i == 0 || !is_id(b[i - 1])) {
            let mut j = i; while j < b.len() && is_id(b[j]) { j += 1; }
            let word: String = b[i..j].iter().collect();
            if word == "final" && j < b.len() && b[j] == '(' {
                // final(IDENT) -> IDENT
                let mut k = j + 1; while k < b.len() && is_id(b[k]) { k += 1; }
                if k < b.len() && b[k] == ')' { s.push_str(&b[j + 1..k].iter().collect::<String>()); i = k + 1; continue; }
            }
            if word == rname && !(i > 0 && b[i - 1] == '.') { s.push_str("__ret"); } else { s.push_str(&word); }
            i = j; continue;
        }
        s.push(b[i]); i += 1;
    }
    s
}

fn unit_props_for(unit: &Unit, _from: &str) -> Vec<String> { unit.props.clone() }

fn count_asserts(spec: &FnSpec, f: &FnOut) -> usize {
    // number of `assert` occurrences in instantiated templates (approximate: per template × instantiations is
    // not tracked separately; the start block and each instantiated kind are counted once per instance)
    let c = |s: &str| s.matches("assert(").count() + s.matches("assert forall").count();
    let mut n = c(&spec.start);
    n += c(&spec.ret_hint) * f.return_points;
    for (k, v) in &f.hint_kinds {
        let per: usize = match k.as_str() { "before-call" => spec.before_call.iter().map(|x| c(&x.1)).sum(), "after-call" => spec.after_call.iter().map(|x| c(&x.1)).sum(), "after-let" => spec.after_let.iter().map(|x| c(&x.1)).sum(), _ => 0 };
        if k != "return" { n += per.min(per * v); }
    }
    n
}
