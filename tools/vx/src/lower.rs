// Prototype of the `vx lower` pass: iterator chains with closures -> index loops.
use proc_macro2::TokenStream;
use quote::{format_ident, quote, ToTokens};
use syn::visit_mut::{self, VisitMut};
use syn::{parse_quote, Expr, ExprClosure, ExprMethodCall, Pat};

#[derive(Debug)]
enum Source { Iter(Expr), IterMut(Expr), Range(Expr, Expr), VecVal(Expr), SliceRange(Expr, Expr, Expr, bool) }
#[derive(Debug)]
enum Adapter { Enumerate, Zip(Source), Filter(ExprClosure), Map(ExprClosure), FilterMap(ExprClosure), Rev }
#[derive(Debug)]
enum Sink { TryForEach(ExprClosure), MinBy(ExprClosure), ForEach(ExprClosure), Fold(Expr, ExprClosure), All(ExprClosure), Any(ExprClosure), Count, Collect, Find(ExprClosure), TryFold(Expr, ExprClosure), ForLoop(Pat, syn::Block) }

struct Chain { source: Source, adapters: Vec<Adapter>, }

fn strip(e: &Expr) -> &Expr { match e { Expr::Paren(p) => strip(&p.expr), Expr::Group(g) => strip(&g.expr), _ => e } }

fn closure_arg(m: &ExprMethodCall, i: usize) -> Option<ExprClosure> {
    match m.args.iter().nth(i).map(strip) { Some(Expr::Closure(c)) => Some(c.clone()), _ => None }
}

fn parse_source(e: &Expr) -> Option<Source> {
    match strip(e) {
        Expr::MethodCall(m) if (m.method == "iter" || m.method == "iter_mut") && m.args.is_empty() && matches!(strip(&m.receiver), Expr::Index(ix) if matches!(strip(&ix.index), Expr::Range(_))) => {
            if let Expr::Index(ix) = strip(&m.receiver) { if let Expr::Range(r) = strip(&ix.index) {
                let a: Expr = r.start.as_ref().map(|x| (**x).clone()).unwrap_or(parse_quote!(0usize));
                let b: Expr = r.end.as_ref().map(|x| (**x).clone())?;
                return Some(Source::SliceRange((*ix.expr).clone(), a, b, m.method == "iter_mut"));
            } }
            None
        }
        Expr::MethodCall(m) if m.method == "iter" && m.args.is_empty() => Some(Source::Iter((*m.receiver).clone())),
        Expr::MethodCall(m) if m.method == "iter_mut" && m.args.is_empty() => Some(Source::IterMut((*m.receiver).clone())),
        Expr::Range(r) => match (&r.start, &r.end, &r.limits) { (Some(a), Some(b), syn::RangeLimits::HalfOpen(_)) => Some(Source::Range((**a).clone(), (**b).clone())), _ => None },
        _ => None,
    }
}

fn parse_chain(e: &Expr) -> Option<Chain> {
    if let Some(s) = parse_source(e) { return Some(Chain { source: s, adapters: vec![] }); }
    if let Expr::MethodCall(m) = strip(e) {
        let mut c = parse_chain(&m.receiver)?;
        let name = m.method.to_string();
        let ad = match name.as_str() {
            "enumerate" => Adapter::Enumerate,
            "rev" => Adapter::Rev,
            "zip" => Adapter::Zip(parse_source(m.args.first()?)?),
            "filter" => Adapter::Filter(closure_arg(m, 0)?),
            "map" => Adapter::Map(closure_arg(m, 0)?),
            "filter_map" => Adapter::FilterMap(closure_arg(m, 0)?),
            _ => return None,
        };
        c.adapters.push(ad);
        return Some(c);
    }
    None
}

fn clone_adapters(a: &[Adapter]) -> Vec<Adapter> {
    a.iter().map(|x| match x {
        Adapter::Enumerate => Adapter::Enumerate, Adapter::Rev => Adapter::Rev,
        Adapter::Zip(s) => Adapter::Zip(clone_source(s)),
        Adapter::Filter(c) => Adapter::Filter(c.clone()), Adapter::Map(c) => Adapter::Map(c.clone()), Adapter::FilterMap(c) => Adapter::FilterMap(c.clone()),
    }).collect()
}
fn clone_source(s: &Source) -> Source {
    match s { Source::Iter(e) => Source::Iter(e.clone()), Source::IterMut(e) => Source::IterMut(e.clone()), Source::Range(a, b) => Source::Range(a.clone(), b.clone()), Source::VecVal(e) => Source::VecVal(e.clone()), Source::SliceRange(e, a, b, m) => Source::SliceRange(e.clone(), a.clone(), b.clone(), *m) }
}
pub struct Lower { pub n: usize, pub sites: usize, pub vec_params: Vec<String>, pub last_sink_name: Option<(String, syn::Ident)>, pub last_src_name: Option<syn::Ident>, pub plain_rust: bool }

impl Lower {
    pub fn new(vec_params: Vec<String>) -> Self { Lower { n: 0, sites: 0, vec_params, last_sink_name: None, last_src_name: None, plain_rust: false } }
    fn fresh(&mut self, p: &str) -> syn::Ident { let i = format_ident!("__{}{}", p, self.n); self.n += 1; i }

    // bind `pat` to value expression `val`, eliminating `&x` reference patterns (rule P)
    fn bind(&mut self, pat: &Pat, val: TokenStream) -> TokenStream {
        let mut extra: Vec<TokenStream> = vec![];
        // a value of the form `&x` matched by a tuple pattern puts the sub-patterns in `ref` binding mode
        let val_is_ref = val.to_string().trim_start().starts_with('&');
        let p2 = self.elim_ref(pat, &mut extra, false, val_is_ref);
        quote! { let #p2 = #val; #(#extra)* }
    }
    fn elim_ref(&mut self, pat: &Pat, extra: &mut Vec<TokenStream>, under_ref: bool, val_is_ref: bool) -> Pat {
        match pat {
            Pat::Reference(r) => { let f = self.fresh("r"); let inner = self.elim_ref(&r.pat, extra, false, false);
                // under `ref` binding mode the fresh binder is a reference to the field, and the `&` pattern
                // strips the field's own reference: two derefs (RFC 2005: an explicit `&` resets the mode)
                if under_ref { extra.insert(0, quote! { let #inner = **#f; }); } else { extra.insert(0, quote! { let #inner = *#f; }); }
                parse_quote!(#f) }
            Pat::Tuple(t) => { let ur = under_ref || val_is_ref; let elems: Vec<Pat> = t.elems.iter().map(|p| self.elim_ref(p, extra, ur, false)).collect(); parse_quote!((#(#elems),*)) }
            Pat::Type(t) => self.elim_ref(&t.pat, extra, under_ref, val_is_ref),
            Pat::Paren(p) => self.elim_ref(&p.pat, extra, under_ref, val_is_ref),
            other => other.clone(),
        }
    }
    fn inline(&mut self, c: &ExprClosure, args: Vec<TokenStream>) -> TokenStream {
        let mut binds = vec![];
        for (p, a) in c.inputs.iter().zip(args.into_iter()) { binds.push(self.bind(p, a)); }
        let body = &c.body;
        quote! { { #(#binds)* #body } }
    }

    fn src_len(&self, s: &Source) -> TokenStream { match s { Source::Iter(e) | Source::IterMut(e) | Source::VecVal(e) => quote!(#e.len()), Source::Range(a, b) => quote!((#b) - (#a)), Source::SliceRange(e, a, b, _) => if self.plain_rust { quote!({ let _ = &#e[#a..#b]; (#b) - (#a) }) } else { quote!(__o_slice_range_len(#e.len(), #a, #b)) } } }
    fn src_item(&self, s: &Source, k: &TokenStream) -> TokenStream { match s { Source::Iter(e) => quote!(&#e[#k]), Source::IterMut(e) => quote!(&mut #e[#k]), Source::VecVal(e) => quote!(#e[#k]), Source::Range(a, _) => quote!((#a) + #k), Source::SliceRange(e, a, _, m) => if *m { quote!(&mut #e[(#a) + #k]) } else { quote!(&#e[(#a) + #k]) } } }

    fn emit(&mut self, ch: &Chain, sink: Sink) -> Expr {
        // a source that is not a place expression (it contains a call) is evaluated once, as std does: bind it first
        fn is_place(e: &Expr) -> bool { match strip(e) { Expr::Path(_) => true, Expr::Field(f) => is_place(&f.base), Expr::Index(i) => is_place(&i.expr), Expr::Unary(u) => is_place(&u.expr), Expr::Reference(r) => is_place(&r.expr), Expr::MethodCall(m) => (m.method == "as_slice" || m.method == "as_mut_slice") && m.args.is_empty() && is_place(&m.receiver), _ => false } }
        let mut src_bind: Option<TokenStream> = None;
        let owned_chain;
        let ch: &Chain = match &ch.source {
            Source::Iter(e) if !is_place(e) => { let s = self.fresh("s"); self.last_src_name = Some(s.clone()); src_bind = Some(quote!(let #s = #e;)); owned_chain = Chain { source: Source::Iter(parse_quote!(#s)), adapters: clone_adapters(&ch.adapters) }; &owned_chain }
            Source::IterMut(e) if !is_place(e) => { let s = self.fresh("s"); self.last_src_name = Some(s.clone()); src_bind = Some(quote!(let mut #s = #e;)); owned_chain = Chain { source: Source::IterMut(parse_quote!(#s)), adapters: clone_adapters(&ch.adapters) }; &owned_chain }
            _ => ch,
        };
        let inner = self.emit_inner(ch, sink);
        match src_bind { Some(b) => parse_quote!({ #b #inner }), None => inner }
    }
    fn emit_inner(&mut self, ch: &Chain, sink: Sink) -> Expr {
        self.sites += 1;
        let k = self.fresh("k");
        let it = self.fresh("it");
        let mut len = self.src_len(&ch.source);
        let rev = ch.adapters.iter().any(|a| matches!(a, Adapter::Rev));
        for a in &ch.adapters { if let Adapter::Zip(s2) = a { let l2 = self.src_len(s2); len = if self.plain_rust { quote!({ let __a = #len; let __b = #l2; if __a <= __b { __a } else { __b } }) } else { quote!(__o_min_len(#len, #l2)) }; } }
        let n = self.fresh("n");
        let idx: TokenStream = if rev { quote!(#n - 1 - #k) } else { quote!(#k) };
        let is_mut = matches!(ch.source, Source::IterMut(_));
        let has_filter = ch.adapters.iter().any(|a| matches!(a, Adapter::Filter(_)));
        // Verus bug avoidance: with iter_mut + filter, predicates see a shared reborrow and the
        // `&mut` element is taken only inside the innermost block
        let shared_first = is_mut && has_filter;
        let item_shared = match &ch.source { Source::IterMut(e) => quote!(&#e[#idx]), s => self.src_item(s, &idx) };
        let item_real = self.src_item(&ch.source, &idx);
        let (init, step, result): (TokenStream, TokenStream, TokenStream) = match &sink {
            Sink::ForLoop(p, b) => { let bd = self.bind(p, quote!(#it)); let stmts = &b.stmts; (quote!(), quote!({ #bd #(#stmts)* }), quote!(())) }
            Sink::ForEach(c) => { let call = self.inline(c, vec![quote!(#it)]); (quote!(), quote!(#call;), quote!(())) }
            Sink::Fold(i, c) => { let acc = self.fresh("acc"); self.last_sink_name = Some(("acc".into(), acc.clone())); let call = self.inline(c, vec![quote!(#acc), quote!(#it)]);
                (quote!(let mut #acc = #i;), quote!(#acc = #call;), quote!(#acc)) }
            Sink::All(c) => { let r = self.fresh("res"); self.last_sink_name = Some(("res".into(), r.clone())); let call = self.inline(c, vec![quote!(#it)]);
                (quote!(let mut #r = true;), quote!(if !(#call) { #r = false; break; }), quote!(#r)) }
            Sink::Any(c) => { let r = self.fresh("res"); self.last_sink_name = Some(("res".into(), r.clone())); let call = self.inline(c, vec![quote!(#it)]);
                (quote!(let mut #r = false;), quote!(if #call { #r = true; break; }), quote!(#r)) }
            Sink::TryForEach(c) => {
                // std: stop at the first Err and return it, Ok(()) otherwise.  `return E;` inside the closure leaves the closure only:
                // the simple shape `if C { return E; } REST` is rewritten to `if C { E } else { REST }` (anything else is left alone
                // and then rejected by the verifier's front end)
                let mut c2 = c.clone();
                if let Expr::Block(b) = &mut *c2.body { elim_returns(&mut b.block); }
                let r = self.fresh("tfe"); self.last_sink_name = Some(("tfe".into(), r.clone()));
                let e = self.fresh("e");
                let call = self.inline(&c2, vec![quote!(#it)]);
                (quote!(let mut #r = Ok(());), quote!(match #call { Ok(_) => {} Err(#e) => { #r = Err(#e); break; } }), quote!(#r)) }
            Sink::MinBy(c) => {
                // std: fold keeping the earlier element unless the later one compares strictly smaller (first minimum wins)
                let r = self.fresh("best"); self.last_sink_name = Some(("best".into(), r.clone()));
                let b = self.fresh("b");
                let call = self.inline(c, vec![quote!(&#b), quote!(&#it)]);
                (quote!(let mut #r = None;), quote!(match #r { None => { #r = Some(#it); } Some(#b) => { match #call { std::cmp::Ordering::Greater => { #r = Some(#it); } _ => {} } } }), quote!(#r)) }
            Sink::Count => { let r = self.fresh("cnt"); self.last_sink_name = Some(("cnt".into(), r.clone())); (quote!(let mut #r: usize = 0;), quote!(#r += 1;), quote!(#r)) }
            Sink::Collect => { let r = self.fresh("out"); self.last_sink_name = Some(("out".into(), r.clone())); (quote!(let mut #r = Vec::new();), quote!(#r.push(#it);), quote!(#r)) }
            Sink::Find(c) => { let r = self.fresh("res"); self.last_sink_name = Some(("res".into(), r.clone())); let call = self.inline(c, vec![quote!(&#it)]);
                (quote!(let mut #r = None;), quote!(if #call { #r = Some(#it); break; }), quote!(#r)) }
            Sink::TryFold(init, c) => {
                // in-place accumulator form: init must be `&mut PLACE`, every `Some(..)` returned by the closure
                // must carry exactly the accumulator parameter; the payload is replaced by `()`
                let place = match strip(init) { Expr::Reference(r) if r.mutability.is_some() => (*r.expr).clone(), _ => panic!("vx: try_fold init is not `&mut PLACE`") };
                let acc_ident = match c.inputs.first() { Some(Pat::Ident(pi)) => pi.ident.clone(), _ => panic!("vx: try_fold accumulator pattern") };
                let mut c2 = c.clone();
                struct Payload { acc: syn::Ident, n: usize }
                impl VisitMut for Payload {
                    fn visit_expr_call_mut(&mut self, call: &mut syn::ExprCall) {
                        visit_mut::visit_expr_call_mut(self, call);
                        if call.func.to_token_stream().to_string() == "Some" && call.args.len() == 1 {
                            if let Expr::Path(p) = &call.args[0] { if p.path.is_ident(&self.acc) { call.args[0] = parse_quote!(()); self.n += 1; } }
                        }
                    }
                }
                let mut pl = Payload { acc: acc_ident, n: 0 };
                pl.visit_expr_mut(&mut c2.body);
                if pl.n == 0 { panic!("vx: try_fold closure does not return its accumulator"); }
                let r = self.fresh("tf"); self.last_sink_name = Some(("tf".into(), r.clone()));
                let call = self.inline(&c2, vec![quote!(&mut #place), quote!(#it)]);
                (quote!(let mut #r: Option<()> = Some(());), quote!(if (#call).is_none() { #r = None; break; }), quote!(#r)) }
        };
        // counters for enumerate adapters (one per adapter)
        let mut counters: Vec<Option<syn::Ident>> = vec![];
        let mut pre_inits: Vec<TokenStream> = vec![];
        for a in &ch.adapters { if let Adapter::Enumerate = a { let c = self.fresh("e"); pre_inits.push(quote!(let mut #c: usize = 0;)); counters.push(Some(c)); } else { counters.push(None); } }
        // rebuild of the mutable item (non-filter adapters only), used in the innermost block
        let mut rebuild: Vec<TokenStream> = vec![];
        if shared_first {
            rebuild.push(quote!(let #it = #item_real;));
            for (a, c) in ch.adapters.iter().zip(counters.iter()) {
                match a {
                    Adapter::Enumerate => { let c = c.as_ref().unwrap(); rebuild.push(quote!(let #it = (#c, #it);)); }
                    Adapter::Zip(s2) => { let i2 = self.src_item(s2, &idx); rebuild.push(quote!(let #it = (#it, #i2);)); }
                    Adapter::Map(_) => panic!("vx: map after iter_mut+filter not supported"),
                    _ => {}
                }
            }
        }
        let mut inner = if shared_first { quote!( #(#rebuild)* #step ) } else { step };
        // an `enumerate` that is followed by `rev` must sit directly on the source; its index is the source index
        let rev_after: Vec<bool> = (0..ch.adapters.len()).map(|i| ch.adapters[i + 1..].iter().any(|a| matches!(a, Adapter::Rev))).collect();
        for (i, a) in ch.adapters.iter().enumerate() { if matches!(a, Adapter::Enumerate) && rev_after[i] && i != 0 { panic!("vx: enumerate..rev not directly on the source"); } }
        for (pos, (a, c)) in ch.adapters.iter().zip(counters.iter()).enumerate().rev() {
            inner = match a {
                Adapter::Rev => inner,
                Adapter::Enumerate => { let c = c.as_ref().unwrap();
                    if rev_after[pos] { quote!( let #it = (#idx, #it); #inner ) } else { quote!( let #it = (#c, #it); #inner #c += 1; ) } }
                Adapter::Zip(s2) => { let i2 = self.src_item(s2, &idx); quote!( let #it = (#it, #i2); #inner ) }
                Adapter::Filter(c) => { let call = self.inline(c, vec![quote!(&#it)]); quote!( if #call { #inner } ) }
                Adapter::Map(c) => { let call = self.inline(c, vec![quote!(#it)]); quote!( let #it = #call; #inner ) }
                Adapter::FilterMap(c) => { let call = self.inline(c, vec![quote!(#it)]); let o = self.fresh("o"); quote!( let #o = #call; if let Some(#it) = #o { #inner } ) }
            };
        }
        let first_item = if shared_first { item_shared } else { item_real };
        // names marker: lets contract files refer to this loop's generated locals as $k, $n, $it, $e, $res, $out, $acc
        let mut nm: Vec<TokenStream> = vec![quote!(k = #k), quote!(n = #n), quote!(it = #it)];
        if let Some(Some(c)) = counters.iter().find(|c| c.is_some()) { nm.push(quote!(e = #c)); }
        if let Some(s) = &self.last_sink_name { let (key, id) = s; let key = format_ident!("{}", key); nm.push(quote!(#key = #id)); }
        self.last_sink_name = None;
        if let Some(s) = self.last_src_name.take() { nm.push(quote!(s = #s)); }
        let e: Expr = parse_quote!({
            #init
            #(#pre_inits)*
            let #n: usize = #len;
            let mut #k: usize = 0;
            while #k < #n {
                __vx_names!(#(#nm),*);
                let #it = #first_item;
                #inner
                #k += 1;
            }
            #result
        });
        e
    }

    fn try_lower_call(&mut self, m: &ExprMethodCall) -> Option<Expr> {
        let name = m.method.to_string();
        let ch = parse_chain(&m.receiver)?;
        let sink = match name.as_str() {
            "for_each" => Sink::ForEach(closure_arg(m, 0)?),
            "fold" => Sink::Fold(m.args.first()?.clone(), closure_arg(m, 1)?),
            "all" => Sink::All(closure_arg(m, 0)?),
            "any" => Sink::Any(closure_arg(m, 0)?),
            "count" => Sink::Count,
            "min_by" => Sink::MinBy(closure_arg(m, 0)?),
            "try_for_each" => Sink::TryForEach(closure_arg(m, 0)?),
            "collect" => Sink::Collect,
            "find" => Sink::Find(closure_arg(m, 0)?),
            "try_fold" => Sink::TryFold(m.args.first()?.clone(), closure_arg(m, 1)?),
            _ => return None,
        };
        // only lower when needed: chain has enumerate, or sink unsupported natively, or closure has non-ident params
        Some(self.emit(&ch, sink))
    }
}

// `if C { return E; } REST...`  ->  `if C { E } else { REST... }` (closure-level returns of the simple guard shape)
fn elim_returns(b: &mut syn::Block) {
    let mut i = 0;
    while i < b.stmts.len() {
        let is_guard = match &b.stmts[i] {
            syn::Stmt::Expr(Expr::If(ife), _) => ife.else_branch.is_none() && ife.then_branch.stmts.len() == 1 && matches!(&ife.then_branch.stmts[0], syn::Stmt::Expr(Expr::Return(r), _) if r.expr.is_some()),
            _ => false,
        };
        if is_guard {
            let rest: Vec<syn::Stmt> = b.stmts.drain(i + 1..).collect();
            let mut rest_block: syn::Block = parse_quote!({ #(#rest)* });
            elim_returns(&mut rest_block);
            if let syn::Stmt::Expr(Expr::If(ife), _) = b.stmts.remove(i) {
                let cond = &ife.cond;
                let val = match &ife.then_branch.stmts[0] { syn::Stmt::Expr(Expr::Return(r), _) => r.expr.clone().unwrap(), _ => unreachable!() };
                let e: Expr = parse_quote!(if #cond { #val } else #rest_block);
                b.stmts.push(syn::Stmt::Expr(e, None));
            }
            return;
        }
        i += 1;
    }
}
fn has_ref_pat(p: &Pat) -> bool {
    match p { Pat::Reference(_) => true, Pat::Tuple(t) => t.elems.iter().any(has_ref_pat), Pat::TupleStruct(t) => t.elems.iter().any(has_ref_pat), Pat::Paren(x) => has_ref_pat(&x.pat), _ => false }
}
impl Lower {
    // rule P inside `if let Some(PAT) = E { .. }`: move `&x` sub-patterns into lets at the start of the block
    fn elim_ref_in_iflet(&mut self, i: &mut syn::ExprIf) {
        if let Expr::Let(l) = &mut *i.cond {
            if has_ref_pat(&l.pat) {
                let mut extra: Vec<TokenStream> = vec![];
                let newp = match &*l.pat {
                    Pat::TupleStruct(ts) => { let path = &ts.path; let elems: Vec<Pat> = ts.elems.iter().map(|p| self.elim_ref(p, &mut extra, false, false)).collect(); let p: Pat = parse_quote!(#path(#(#elems),*)); p }
                    other => self.elim_ref(other, &mut extra, false, false),
                };
                *l.pat = newp;
                let stmts = std::mem::take(&mut i.then_branch.stmts);
                let blk: syn::Block = parse_quote!({ #(#extra)* #(#stmts)* });
                i.then_branch = blk;
            }
        }
    }
}
impl VisitMut for Lower {
    fn visit_expr_if_mut(&mut self, i: &mut syn::ExprIf) {
        visit_mut::visit_expr_if_mut(self, i);
        self.elim_ref_in_iflet(i);
    }
    fn visit_expr_mut(&mut self, e: &mut Expr) {
        // bottom-up: lower inner chains first
        visit_mut::visit_expr_mut(self, e);
        let replacement = match e {
            Expr::MethodCall(m) if m.method == "retain" && m.args.len() == 1 && matches!(strip(&m.args[0]), Expr::Closure(_)) => {
                // V.retain(|x| P)  ==>  index loop that removes the elements failing P, order preserved
                let v = &m.receiver; let c = closure_arg(m, 0).unwrap();
                let i = self.fresh("ri");
                let call = self.inline(&c, vec![quote!(&#v[#i])]);
                self.sites += 1;
                Some(parse_quote!({ let mut #i: usize = 0; while #i < #v.len() { __vx_names!(ri = #i); if #call { #i += 1; } else { #v.remove(#i); } } }))
            }
            // rule M (call site): a lazy chain passed as `&mut CHAIN` is materialised and the callee's
            // vector instance is called instead
            Expr::Call(c) if !self.plain_rust && c.args.len() == 1 && matches!(strip(&c.args[0]), Expr::Reference(r) if r.mutability.is_some() && parse_chain(&r.expr).map(|ch| !ch.adapters.is_empty()).unwrap_or(false)) => {
                if let Expr::Reference(r) = strip(&c.args[0]) {
                    let ch = parse_chain(&r.expr).unwrap();
                    let mat = self.emit(&ch, Sink::Collect);
                    let f = c.func.to_token_stream().to_string().replace(' ', "");
                    let nf: Expr = syn::parse_str(&format!("{}__vec", f)).unwrap();
                    let mv = self.fresh("m");
                    Some(parse_quote!({ let #mv = #mat; #nf(&#mv) }))
                } else { None }
            }
            // Option::map with a closure on a lowered chain result (e.g. `.min_by(..).map(|x| ..)`): a match
            Expr::MethodCall(m) if m.method == "map" && m.args.len() == 1 && matches!(strip(&m.args[0]), Expr::Closure(_)) && matches!(strip(&m.receiver), Expr::Block(_)) => {
                let c = closure_arg(m, 0).unwrap();
                let x = self.fresh("x");
                let recv = &m.receiver;
                let call = self.inline(&c, vec![quote!(#x)]);
                self.sites += 1;
                Some(parse_quote!(match #recv { Some(#x) => Some(#call), None => None }))
            }
            Expr::MethodCall(m) => self.try_lower_call(m),
            Expr::ForLoop(f) if matches!(&*f.expr, Expr::Path(p) if p.path.get_ident().map(|i| self.vec_params.contains(&i.to_string())).unwrap_or(false)) => {
                let c = Chain { source: Source::VecVal((*f.expr).clone()), adapters: vec![] };
                Some(self.emit(&c, Sink::ForLoop((*f.pat).clone(), f.body.clone())))
            }
            Expr::ForLoop(f) => parse_chain(&f.expr).filter(|c| !c.adapters.is_empty() || matches!(c.source, Source::IterMut(_) | Source::Iter(_) | Source::SliceRange(..) | Source::Range(..))).map(|c| self.emit(&c, Sink::ForLoop((*f.pat).clone(), f.body.clone()))),
            _ => None,
        };
        if let Some(r) = replacement { *e = r; }
    }
}

