// minimal JSON writer (no external crates)
pub enum J { S(String), N(f64), B(bool), A(Vec<J>), O(Vec<(String, J)>) }
impl J {
    pub fn s(x: &str) -> J { J::S(x.to_string()) }
    pub fn n(x: usize) -> J { J::N(x as f64) }
    pub fn obj(v: Vec<(&str, J)>) -> J { J::O(v.into_iter().map(|(k, v)| (k.to_string(), v)).collect()) }
    pub fn to_string(&self) -> String { let mut s = String::new(); self.write(&mut s); s }
    fn esc(x: &str, out: &mut String) {
        out.push('"');
        for c in x.chars() {
            match c { '"' => out.push_str("\\\""), '\\' => out.push_str("\\\\"), '\n' => out.push_str("\\n"), '\t' => out.push_str("\\t"), '\r' => out.push_str("\\r"),
                c if (c as u32) < 0x20 => out.push_str(&format!("\\u{:04x}", c as u32)), c => out.push(c) }
        }
        out.push('"');
    }
    fn write(&self, out: &mut String) {
        match self {
            J::S(x) => J::esc(x, out),
            J::N(x) => out.push_str(&format!("{}", x)),
            J::B(b) => out.push_str(if *b { "true" } else { "false" }),
            J::A(v) => { out.push('['); for (i, x) in v.iter().enumerate() { if i > 0 { out.push(','); } x.write(out); } out.push(']'); }
            J::O(v) => { out.push('{'); for (i, (k, x)) in v.iter().enumerate() { if i > 0 { out.push(','); } J::esc(k, out); out.push(':'); x.write(out); } out.push('}'); }
        }
    }
}
