// rules D (drop), R (RefCell made explicit), O (outline std-only expressions), A (alpha-rename)
use crate::norm;
use crate::spec::Unit;
use quote::ToTokens;
use std::collections::BTreeMap;
use syn::visit_mut::{self, VisitMut};
use syn::{parse_quote, Expr};

#[derive(Default)]
pub struct Rules { pub outlined: BTreeMap<String, usize>, pub dropped: BTreeMap<String, usize>, pub renamed: BTreeMap<String, usize>, pub extra_drop_derives: Vec<String> }

const DROP_DERIVES: &[&str] = &["Serialize", "Deserialize", "Derivative", "EnumString", "EnumVariantNames", "Display", "Debug"];

pub fn clean_attrs(attrs: &mut Vec<syn::Attribute>, rules: &mut Rules) {
    let mut out = vec![];
    for a in attrs.drain(..) {
        let p = a.path().to_token_stream().to_string();
        if p == "doc" || p == "allow" || p == "must_use" || p == "serde" || p == "derivative" || p == "strum" || p == "inline" || p == "deprecated" { *rules.dropped.entry(format!("attr:{}", p)).or_default() += 1; continue; }
        if p == "derive" {
            let mut keep: Vec<syn::Path> = vec![];
            let mut structural = false;
            let _ = a.parse_nested_meta(|m| { let n = m.path.to_token_stream().to_string(); if DROP_DERIVES.contains(&n.as_str()) || rules.extra_drop_derives.contains(&n) { *rules.dropped.entry(format!("derive:{}", n)).or_default() += 1; } else { if n == "PartialEq" { structural = true; } keep.push(m.path.clone()); } Ok(()) });
            if structural { keep.push(parse_quote!(Structural)); }
            if !keep.is_empty() { out.push(parse_quote!(#[derive(#(#keep),*)])); }
            continue;
        }
        out.push(a);
    }
    *attrs = out;
}

pub fn strip_derives(attrs: &mut Vec<syn::Attribute>, names: &[&str]) {
    let mut out = vec![];
    for a in attrs.drain(..) {
        if a.path().is_ident("derive") {
            let mut keep: Vec<syn::Path> = vec![];
            let _ = a.parse_nested_meta(|m| { let n = m.path.to_token_stream().to_string(); if !names.contains(&n.as_str()) { keep.push(m.path.clone()); } Ok(()) });
            if !keep.is_empty() { out.push(parse_quote!(#[derive(#(#keep),*)])); }
        } else { out.push(a); }
    }
    *attrs = out;
}
pub fn sig_rules(sig: &mut syn::Signature, rules: &mut Rules) {
    struct T<'a> { rules: &'a mut Rules }
    impl<'a> VisitMut for T<'a> { fn visit_type_mut(&mut self, t: &mut syn::Type) { refcell_type(t, self.rules); visit_mut::visit_type_mut(self, t); refcell_type(t, self.rules); } }
    T { rules }.visit_signature_mut(sig);
}
fn refcell_type(t: &mut syn::Type, rules: &mut Rules) {
    // RefCell<T> -> T;  RwLock<T> -> T and Arc<RwLock<T>> -> T (the lock and the sharing are dropped: single-threaded, see DESIGN A.15)
    fn inner_of(t: &syn::Type, name: &str) -> Option<syn::Type> {
        if let syn::Type::Path(p) = t { if let Some(seg) = p.path.segments.last() { if seg.ident == name {
            if let syn::PathArguments::AngleBracketed(ab) = &seg.arguments { if let Some(syn::GenericArgument::Type(inner)) = ab.args.first() { return Some(inner.clone()); } } } } }
        None
    }
    if let Some(i) = inner_of(t, "RefCell") { *t = i; *rules.dropped.entry("R:type".into()).or_default() += 1; return; }
    if let Some(i) = inner_of(t, "RwLock") { *t = i; *rules.dropped.entry("R:type-rwlock".into()).or_default() += 1; return; }
    if let Some(a) = inner_of(t, "Arc") { if let Some(i) = inner_of(&a, "RwLock") { *t = i; *rules.dropped.entry("R:type-arc-rwlock".into()).or_default() += 1; } }
}

pub struct BodyRules<'a> { pub rules: &'a mut Rules, pub unit: &'a Unit, pub features: &'a [String], pub tyname: Option<String>, pub fnpath: String }
impl<'a> BodyRules<'a> {
    fn is_cell(&self, e: &Expr) -> bool {
        let s = norm(&e.to_token_stream().to_string());
        self.unit.refcell_fields.iter().any(|f| s == *f || s.ends_with(&format!(".{}", f)))
    }
    fn outline(&mut self, name: &str) { *self.rules.outlined.entry(name.into()).or_default() += 1; }
}
fn is_lit_2usize(e: &Expr) -> bool { norm(&e.to_token_stream().to_string()) == "2usize" }
impl<'a> VisitMut for BodyRules<'a> {
    // rule A: `V.append(&mut CALL(..));`  ->  `let mut __appN = CALL(..); V.append(&mut __appN);` (the temporary gets a name, evaluation order unchanged)
    fn visit_block_mut(&mut self, b: &mut syn::Block) {
        visit_mut::visit_block_mut(self, b);
        let mut out: Vec<syn::Stmt> = vec![];
        for st in b.stmts.drain(..) {
            let mut done = false;
            if let syn::Stmt::Expr(Expr::MethodCall(m), Some(_)) = &st {
                if m.method == "append" && m.args.len() == 1 && matches!(&*m.receiver, Expr::Path(_)) {
                    if let Expr::Reference(r) = &m.args[0] { if r.mutability.is_some() && matches!(&*r.expr, Expr::MethodCall(_) | Expr::Call(_)) {
                        let n = *self.rules.dropped.get("A:append-temp").unwrap_or(&0);
                        let id = quote::format_ident!("__app{}", n);
                        let inner = &r.expr; let recv = &m.receiver;
                        out.push(parse_quote!(let mut #id = #inner;));
                        out.push(parse_quote!(#recv.append(&mut #id);));
                        *self.rules.dropped.entry("A:append-temp".into()).or_default() += 1;
                        done = true;
                    } }
                }
            }
            if !done { out.push(st); }
        }
        b.stmts = out;
    }
    fn visit_expr_mut(&mut self, e: &mut Expr) {
        visit_mut::visit_expr_mut(self, e);
        let mut repl: Option<Expr> = None;
        // O (configured): a named std-only expression is replaced by a call to an outlined helper whose body is that expression
        if let Some(fs) = self.unit.fns.get(&self.fnpath) {
            if !fs.outline_exprs.is_empty() && matches!(e, Expr::MethodCall(_) | Expr::Call(_) | Expr::Binary(_) | Expr::Macro(_)) {
                let key = norm(&e.to_token_stream().to_string());
                for (a, b) in &fs.outline_exprs { if *a == key { repl = Some(syn::parse_str(b).expect("outline-expr replacement")); self.outline(&format!("expr:{}", a)); } }
            }
        }
        if let Expr::MethodCall(m) = e {
            let name = m.method.to_string();
            // R: drop .borrow() / .borrow_mut() / .get_mut() on former cells
            if (name == "borrow" || name == "borrow_mut" || name == "get_mut") && m.args.is_empty() && self.is_cell(&m.receiver) {
                *self.rules.dropped.entry("R:borrow".into()).or_default() += 1;
                repl = Some((*m.receiver).clone());
            }
            // R (locks): `cell.read().expect(MSG)` / `cell.write().expect(MSG)` on former RwLock cells (poisoning is not modelled)
            if name == "expect" && m.args.len() == 1 { if let Expr::MethodCall(l) = &*m.receiver { if (l.method == "read" || l.method == "write") && l.args.is_empty() && self.is_cell(&l.receiver) {
                *self.rules.dropped.entry("R:lock".into()).or_default() += 1;
                repl = Some((*l.receiver).clone());
            } } }
            // rule G: ghost token argument on channel operations
            for (feat, meth, extra) in &self.unit.ghost_args {
                if (feat == "-" || self.features.contains(feat)) && name == *meth && (m.args.len() <= 1 || !matches!(name.as_str(), "send" | "try_send" | "try_recv")) {
                    let mut m2 = m.clone();
                    let e: Expr = syn::parse_str(extra).expect("ghost-arg");
                    m2.args.push(e);
                    *self.rules.dropped.entry("G:arg".into()).or_default() += 1;
                    repl = Some(Expr::MethodCall(m2));
                }
            }
            // O: a.union(&b).copied().collect()
            if name == "collect" {
                if let Expr::MethodCall(c) = &*m.receiver { if c.method == "copied" { if let Expr::MethodCall(un) = &*c.receiver { if un.method == "union" {
                    let a = &un.receiver; let b = un.args.first().unwrap();
                    self.outline("__o_union_copied_collect");
                    repl = Some(parse_quote!(__o_union_copied_collect(&#a, #b)));
                } } } }
            }
            if name == "min" && m.args.len() == 1 { if let Expr::Field(_) = &*m.receiver { let a = &m.receiver; let b = m.args.first().unwrap();
                self.outline("__o_min_usize"); repl = Some(parse_quote!(__o_min_usize(#a, #b))); } }
            if name == "clone" && m.receiver.to_token_stream().to_string().contains("var_deps") { let a = &m.receiver;
                self.outline("__o_hashset_clone"); repl = Some(parse_quote!(__o_hashset_clone(&#a))); }
            if name == "pow" && m.args.len() == 1 && is_lit_2usize(&m.receiver) { let a = m.args.first().unwrap(); self.outline("__o_pow2"); repl = Some(parse_quote!(__o_pow2(#a))); }
            // O: `X.len().try_into().expect(MSG)` (u64 -> usize)
            if repl.is_none() && name == "expect" { if let Expr::MethodCall(ti) = &*m.receiver { if ti.method == "try_into" && ti.args.is_empty() { if let Expr::MethodCall(ln) = &*ti.receiver { if ln.method == "len" {
                let inner = (*ti.receiver).clone(); self.outline("__o_u64_to_usize"); repl = Some(parse_quote!(__o_u64_to_usize(#inner))); } } } } }
            if repl.is_none() && name == "to_vec" && m.args.is_empty() { let a = &m.receiver; self.outline("__o_to_vec"); repl = Some(parse_quote!(__o_to_vec(#a))); }
            if name == "concat" && m.args.is_empty() { if let Expr::Array(arr) = &*m.receiver { if arr.elems.len() == 2 { let a = &arr.elems[0]; let b = &arr.elems[1];
                self.outline("__o_concat2"); repl = Some(parse_quote!(__o_concat2(#a, #b))); } } }
            // O: `A.try_for_each(..).and(B)` (Result::and: B is evaluated eagerly, the first Err wins)
            if repl.is_none() && name == "and" && m.args.len() == 1 { if let Expr::MethodCall(r) = &*m.receiver { if r.method == "try_for_each" {
                let a = &m.receiver; let b = m.args.first().unwrap(); self.outline("__o_result_and"); repl = Some(parse_quote!(__o_result_and(#a, #b))); } } }
            if name == "then_some" && m.args.len() == 1 { let c = &m.receiver; let a = m.args.first().unwrap(); self.outline("__o_then_some"); repl = Some(parse_quote!(__o_then_some(#c, #a))); }
            if name == "contains" && m.args.len() == 1 && self.unit.outline_contains.iter().any(|f| norm(&m.receiver.to_token_stream().to_string()) == *f) { let c = &m.receiver; let a = m.args.first().unwrap(); self.outline("__o_vec_contains"); repl = Some(parse_quote!(__o_vec_contains(&#c, #a))); }
        }
        if let Expr::Call(c) = e {
            let f = norm(&c.func.to_token_stream().to_string());
            if f == "std::cmp::max" && c.args.len() == 2 { let a = &c.args[0]; let b = &c.args[1]; self.outline("__o_max_usize"); repl = Some(parse_quote!(__o_max_usize(#a, #b))); }
            if f == "RefCell::new" && c.args.len() == 1 { repl = Some(c.args[0].clone()); *self.rules.dropped.entry("R:RefCell::new".into()).or_default() += 1; }
        }
        if let Some(r) = repl { *e = r; }
    }
    fn visit_expr_struct_mut(&mut self, s: &mut syn::ExprStruct) {
        visit_mut::visit_expr_struct_mut(self, s);
        // rule G: ghost token fields in struct literals
        let last = s.path.segments.last().map(|x| x.ident.to_string()).unwrap_or_default();
        for (st, feat, name, _ty, init) in &self.unit.ghost_fields {
            if !(feat == "-" || self.features.contains(feat)) { continue; }
            if &last == st || (last == "Self" && self.tyname.as_deref() == Some(st.as_str())) {
                let n = syn::Ident::new(name, proc_macro2::Span::call_site());
                let e: Expr = syn::parse_str(init).expect("ghost-field init");
                s.fields.push(parse_quote!(#n: #e));
                *self.rules.dropped.entry("G:field-init".into()).or_default() += 1;
            }
        }
    }
    fn visit_local_mut(&mut self, l: &mut syn::Local) {
        visit_mut::visit_local_mut(self, l);
        // O: `let x: u32 = E.try_into().expect(MSG);`  ->  `let x: u32 = __o_usize_to_u32(E);` (std: panics unless E fits)
        if let syn::Pat::Type(pt) = &l.pat {
            if pt.ty.to_token_stream().to_string() == "u32" {
                if let Some(init) = &mut l.init {
                    if let Expr::MethodCall(ex) = &*init.expr { if ex.method == "expect" { if let Expr::MethodCall(ti) = &*ex.receiver { if ti.method == "try_into" && ti.args.is_empty() {
                        let inner = (*ti.receiver).clone();
                        *init.expr = parse_quote!(__o_usize_to_u32(#inner));
                        *self.rules.outlined.entry("__o_usize_to_u32".into()).or_default() += 1;
                    } } } }
                }
            }
        }
        // R: a local that owned a former cell and is mutated through it needs `mut`; a local bound to
        // `cell.borrow_mut()` becomes a `&mut` reborrow of the field
        // R2: a shared borrow of a Copy element held across calls that need `&mut self` becomes a copy
        if let syn::Pat::Ident(pi) = &l.pat {
            if self.unit.copy_borrow.iter().any(|(f, v)| *f == self.fnpath && *v == pi.ident.to_string()) {
                if let Some(init) = &mut l.init { if let Expr::Reference(rf) = &*init.expr { if rf.mutability.is_none() { let inner = (*rf.expr).clone(); *init.expr = inner; *self.rules.dropped.entry("R2:copy-borrow".into()).or_default() += 1; } } }
            }
        }
        if let syn::Pat::Ident(pi) = &mut l.pat {
            let is_self_lit = l.init.as_ref().map(|i| i.expr.to_token_stream().to_string().starts_with("Self {")).unwrap_or(false);
            if is_self_lit && !self.unit.refcell_fields.is_empty() && pi.mutability.is_none() { pi.mutability = Some(Default::default()); *self.rules.dropped.entry("R:let-mut".into()).or_default() += 1; }
            if self.unit.refcell_fields.contains(&pi.ident.to_string()) {
                if let Some(init) = &mut l.init { if self.is_cell(&init.expr) { pi.mutability = None; let e = &init.expr; let ne: Expr = parse_quote!(&mut #e); *init.expr = ne; *self.rules.dropped.entry("R:reborrow".into()).or_default() += 1; } }
            }
        }
    }
    fn visit_type_mut(&mut self, t: &mut syn::Type) {
        refcell_type(t, self.rules);
        visit_mut::visit_type_mut(self, t);
        refcell_type(t, self.rules);
    }
}

// rule A: local identifiers that collide with Verus' built-in type names
pub fn alpha_rename(b: &mut syn::Block, rules: &mut Rules) {
    struct A<'a> { rules: &'a mut Rules }
    impl<'a> VisitMut for A<'a> {
        fn visit_ident_mut(&mut self, i: &mut syn::Ident) {
            let s = i.to_string();
            if s == "int" || s == "nat" { *i = syn::Ident::new(&format!("{}_", s), i.span()); *self.rules.renamed.entry(s).or_default() += 1; }
        }
        fn visit_macro_mut(&mut self, _m: &mut syn::Macro) {}
    }
    A { rules }.visit_block_mut(b);
}

// remove `log::*!(..)` statements (rule D4) - used for shape comparison
pub fn strip_logging(b: &mut syn::Block) {
    struct L;
    impl VisitMut for L {
        fn visit_block_mut(&mut self, b: &mut syn::Block) {
            b.stmts.retain(|s| !matches!(s, syn::Stmt::Macro(m) if m.mac.path.to_token_stream().to_string().starts_with("log ::")));
            visit_mut::visit_block_mut(self, b);
        }
    }
    L.visit_block_mut(b);
}

pub fn alpha_rename_sig(sig: &mut syn::Signature, rules: &mut Rules) {
    for a in sig.inputs.iter_mut() {
        if let syn::FnArg::Typed(pt) = a { if let syn::Pat::Ident(pi) = &mut *pt.pat {
            let s = pi.ident.to_string();
            if s == "int" || s == "nat" { pi.ident = syn::Ident::new(&format!("{}_", s), pi.ident.span()); *rules.renamed.entry(s).or_default() += 1; }
        } }
    }
}
