// .vspec parser: unit description, takes, per-function contracts / loop specs / hint templates
use crate::norm;
use std::collections::BTreeMap;

#[derive(Default, Debug, Clone)]
pub struct Clause { pub text: String, pub props: Vec<String> }

#[derive(Default, Debug, Clone)]
pub struct FnSpec {
    pub ret: Option<String>,
    pub requires: Vec<String>,
    pub ensures: Vec<Clause>,
    pub decreases: String,
    pub attrs: String,
    pub start: String,
    pub before_call: Vec<(String, String)>,
    pub after_call: Vec<(String, String)>,
    pub after_let: Vec<(String, String)>,
    pub before_if: Vec<(String, String)>,
    pub then_start: Vec<(String, String)>,
    pub else_start: Vec<(String, String)>,
    pub arm_start: Vec<(String, String)>,
    pub before_continue: String,
    pub ret_hint: String,
    pub loops: BTreeMap<usize, String>,
    pub loops_cond: BTreeMap<usize, String>,
    pub loop_start: BTreeMap<usize, String>,
    pub loop_end: BTreeMap<usize, String>,
    pub before_loop: BTreeMap<usize, String>, // spliced right before the `while` / `loop` statement of loop N
    pub outline_exprs: Vec<(String, String)>,
    pub dead_conds: Vec<(String, String)>,
    pub dead_arms: Vec<(String, String)>, // (feature or -, match-arm pattern with digits dropped) arm proved unreachable
    pub dead_else: Vec<(String, String)>, // (feature or -, normalised `if` condition whose then-branch is proved unreachable)
    pub no_autopost: bool,
    pub cfg: Option<String>,
    pub props: Vec<String>,
    pub kind_props: BTreeMap<String, Vec<String>>,
    raw_requires: String,
    raw_ensures: String,
}

#[derive(Debug)]
pub enum Take {
    Item { kind: String, name: String },
    Impl { header: String, fns: Vec<String>, inherent_as: Option<(String, String)>, self_as: Option<String> },
    // rule C: the k-th outermost closure of a function, lifted to a named inherent function with the given signature
    Closure { fn_path: String, index: usize, new_path: String, sig: String },
    // shape obligation: the body of a function with its outermost closures replaced by __Ck__ must read exactly like this
    Shape { fn_path: String, props: Vec<String>, expected: String },
}

#[derive(Default)]
pub struct Unit {
    pub name: String,
    pub pre: Vec<String>,
    pub inside: Vec<String>,
    pub imports: Vec<String>,
    pub sources: Vec<(String, Vec<Take>)>,
    pub source_feature: Vec<Option<String>>,
    pub fns: BTreeMap<String, FnSpec>,
    pub refcell_mut_fns: Vec<String>,
    pub refcell_mut_unless: Vec<(String, String)>,
    pub refcell_fields: Vec<String>,
    pub copy_borrow: Vec<(String, String)>,
    pub mono_vec: Vec<(String, String)>,
    pub mono_fns: Vec<(String, String, Vec<(String, String)>)>, // original path, new name, (param -> replacement function path)
    pub drop_derives: Vec<String>,
    pub no_structural: Vec<String>,
    pub shape_attrs: Vec<(String, String, String, Vec<String>)>, // struct, field, required attr text (normalised; leading ! = must be absent), props
    pub outline_contains: Vec<String>,
    pub ghost_fields: Vec<(String, String, String, String, String)>, // struct, feature, name, type, init
    pub ghost_args: Vec<(String, String, String)>, // feature, method, extra argument
    pub ghost_params: Vec<(String, String)>, // function path, extra (ghost) parameter text
    pub props: Vec<String>,
}

// split `a, b, forall|i: int, j: int| f(i, j), c` at top-level commas
pub fn split_clauses(text: &str) -> Vec<String> {
    let mut out = vec![];
    let mut cur = String::new();
    let mut depth = 0i32;
    let mut in_bars = false;
    let chars: Vec<char> = text.chars().collect();
    let mut i = 0;
    let mut in_line_comment = false;
    while i < chars.len() {
        let c = chars[i];
        if in_line_comment { if c == '\n' { in_line_comment = false; cur.push(c); } i += 1; continue; }
        if c == '/' && i + 1 < chars.len() && chars[i + 1] == '/' { in_line_comment = true; i += 2; continue; }
        match c {
            '(' | '[' | '{' => { depth += 1; cur.push(c); }
            ')' | ']' | '}' => { depth -= 1; cur.push(c); }
            '|' => {
                if in_bars { in_bars = false; cur.push(c); }
                else {
                    // a binder list opens after forall / exists / choose (ignoring whitespace); `||` is an operator
                    let prev: String = cur.trim_end().chars().rev().take_while(|ch| ch.is_alphanumeric() || *ch == '_').collect::<String>().chars().rev().collect();
                    if (prev == "forall" || prev == "exists" || prev == "choose") && !(i + 1 < chars.len() && chars[i + 1] == '|') { in_bars = true; }
                    cur.push(c);
                }
            }
            ',' if depth == 0 && !in_bars => { if !cur.trim().is_empty() { out.push(cur.trim().to_string()); } cur = String::new(); }
            _ => cur.push(c),
        }
        i += 1;
    }
    if !cur.trim().is_empty() { out.push(cur.trim().to_string()); }
    out
}
pub fn join_clauses(cl: &[String]) -> String { cl.iter().map(|c| format!("            {},", c)).collect::<Vec<_>>().join("\n") }
pub fn count_loop_clauses(l: &str) -> usize {
    // clauses under invariant / invariant_except_break / ensures of a loop spec
    let mut n = 0;
    let mut body = String::new();
    for line in l.lines() {
        let t = line.trim_start();
        let kw = ["invariant_except_break", "invariant", "ensures", "decreases"].iter().find(|k| t.starts_with(**k) && t[k.len()..].chars().next().map(|c| !c.is_alphanumeric() && c != '_').unwrap_or(true));
        if let Some(k) = kw { n += split_clauses(&body).len(); body = if *k == "decreases" { String::new() } else { t[k.len()..].to_string() }; if *k == "decreases" { body = String::from("__skip__"); } }
        else if body != "__skip__" { body.push('\n'); body.push_str(line); }
    }
    if body != "__skip__" { n += split_clauses(&body).len(); }
    n
}

fn parse_tagged(c: &str, default: &[String]) -> Clause {
    let t = c.trim();
    if let Some(rest) = t.strip_prefix('@') {
        let (tags, body) = rest.split_once(char::is_whitespace).unwrap_or((rest, ""));
        return Clause { text: body.trim().to_string(), props: tags.split('+').map(|s| s.trim().to_string()).filter(|s| !s.is_empty()).collect() };
    }
    Clause { text: t.to_string(), props: default.to_vec() }
}

pub fn parse_unit(text: &str) -> Unit {
    let mut u = Unit::default();
    let mut cur_fn: Option<String> = None;
    let mut section: Option<String> = None;
    let lines: Vec<&str> = text.lines().collect();
    let mut i = 0;
    fn push(u: &mut Unit, f: &Option<String>, sec: &Option<String>, line: &str) {
        let (Some(f), Some(sec)) = (f, sec) else { return };
        let spec = u.fns.get_mut(f).unwrap();
        let l = format!("{}\n", line);
        match sec.as_str() {
            "requires" => spec.raw_requires.push_str(&l),
            "ensures" => spec.raw_ensures.push_str(&l),
            "decreases" => spec.decreases.push_str(&l),
            "attrs" => spec.attrs.push_str(&l),
            "start" => spec.start.push_str(&l),
            "return" => spec.ret_hint.push_str(&l),
            s if s.starts_with("before-call ") => spec.before_call.last_mut().unwrap().1.push_str(&l),
            s if s.starts_with("after-call ") => spec.after_call.last_mut().unwrap().1.push_str(&l),
            s if s.starts_with("after-let ") => spec.after_let.last_mut().unwrap().1.push_str(&l),
            s if s.starts_with("before-if ") => spec.before_if.last_mut().unwrap().1.push_str(&l),
            s if s.starts_with("then-start ") => spec.then_start.last_mut().unwrap().1.push_str(&l),
            s if s.starts_with("else-start ") => spec.else_start.last_mut().unwrap().1.push_str(&l),
            s if s.starts_with("arm-start ") => spec.arm_start.last_mut().unwrap().1.push_str(&l),
            "before-continue" => spec.before_continue.push_str(&l),
            s if s.starts_with("loop-start ") => { let n: usize = s[11..].trim().parse().unwrap(); spec.loop_start.entry(n).or_default().push_str(&l) }
            s if s.starts_with("before-loop ") => { let n: usize = s[12..].trim().parse().unwrap(); spec.before_loop.entry(n).or_default().push_str(&l) }
            s if s.starts_with("loop-end ") => { let n: usize = s[9..].trim().parse().unwrap(); spec.loop_end.entry(n).or_default().push_str(&l) }
            s if s.starts_with("loop ") => { let n: usize = s[5..].trim().split_whitespace().next().unwrap().parse().unwrap(); spec.loops.entry(n).or_default().push_str(&l) }
            _ => panic!("unknown section {}", sec),
        }
    }
    while i < lines.len() {
        let line = lines[i];
        i += 1;
        let ts = line.trim_start();
        if ts.starts_with('#') && !ts.starts_with("#[") && !ts.starts_with("#!") { continue; }
        if line.starts_with(' ') || line.starts_with('\t') || line.trim().is_empty() {
            if cur_fn.is_some() { push(&mut u, &cur_fn, &section, line); }
            else if let Some((_, takes)) = u.sources.last_mut() {
                let t = line.trim();
                if let Some(rest) = t.strip_prefix("take ") {
                    if let Some(r) = rest.strip_prefix("closure ") {
                        let mut it = r.splitn(5, ' ');
                        let fn_path = it.next().unwrap().to_string(); let index: usize = it.next().unwrap().parse().unwrap();
                        assert_eq!(it.next(), Some("as")); let new_path = it.next().unwrap().to_string(); let sig = it.next().unwrap_or("").to_string();
                        takes.push(Take::Closure { fn_path, index, new_path, sig });
                    } else if let Some(r) = rest.strip_prefix("shape ") {
                        let mut it = r.splitn(3, ' ');
                        let fn_path = it.next().unwrap().to_string(); let props = it.next().unwrap().split('+').map(|s| s.to_string()).collect(); let expected = norm(it.next().unwrap_or(""));
                        takes.push(Take::Shape { fn_path, props, expected });
                    } else if let Some(r) = rest.strip_prefix("impl ") {
                        let (hdr, fns) = r.split_once(" : ").expect("impl take needs ' : '");
                        let (hdr, self_as) = match hdr.split_once(" => ") { Some((a, b)) => (a, Some(b.trim().to_string())), None => (hdr, None) };
                        let (fnlist, inh) = match fns.split_once(" as ") { Some((a, b)) => (a, Some(b.trim().to_string())), None => (fns, None) };
                        let fns: Vec<String> = fnlist.split_whitespace().map(|s| s.to_string()).collect();
                        let inherent_as = inh.map(|n| { let (ty, nm) = n.split_once("::").unwrap(); (ty.to_string(), nm.to_string()) });
                        takes.push(Take::Impl { header: norm(hdr), fns, inherent_as, self_as });
                    } else {
                        let (kind, name) = rest.split_once(' ').unwrap();
                        takes.push(Take::Item { kind: kind.to_string(), name: name.trim().to_string() });
                    }
                }
            }
            continue;
        }
        let (kw, rest) = line.split_once(' ').unwrap_or((line, ""));
        match kw {
            "unit" => u.name = rest.trim().to_string(),
            "props" => { let v: Vec<String> = rest.split_whitespace().map(|s| s.to_string()).collect(); match &cur_fn { Some(f) => u.fns.get_mut(f).unwrap().props = v, None => u.props = v } }
            "kind-props" => { let mut it = rest.split_whitespace(); let k = it.next().unwrap().to_string(); let v: Vec<String> = it.map(|s| s.to_string()).collect(); u.fns.get_mut(cur_fn.as_ref().unwrap()).unwrap().kind_props.insert(k, v); }
            "include" => u.pre.push(rest.trim().to_string()),
            "include-verus" => u.inside.push(rest.trim().to_string()),
            "import" => u.imports.push(rest.trim().to_string()),
            "source" => { cur_fn = None; u.sources.push((rest.trim().to_string(), vec![])); u.source_feature.push(None); }
            "source-if" => { cur_fn = None; let (f, p) = rest.trim().split_once(' ').unwrap(); u.sources.push((p.trim().to_string(), vec![])); u.source_feature.push(Some(f.to_string())); }
            "refcell-mut" => u.refcell_mut_fns.extend(rest.split_whitespace().map(|s| s.to_string())),
            "ghost-field" => { let v: Vec<&str> = rest.split_whitespace().collect(); u.ghost_fields.push((v[0].into(), v[1].into(), v[2].into(), v[3].into(), v[4..].join(" "))); }
            "ghost-param" => { let (f, p) = rest.trim().split_once(' ').expect("ghost-param FN PARAM"); u.ghost_params.push((f.to_string(), p.trim().to_string())); }
            "ghost-arg" => { let v: Vec<&str> = rest.split_whitespace().collect(); u.ghost_args.push((v[0].into(), v[1].trim_start_matches("*.").into(), v[2..].join(" "))); }
            "outline-contains" => u.outline_contains.extend(rest.split_whitespace().map(|s| s.to_string())),
            "refcell-mut-unless" => { let mut it = rest.split_whitespace(); let feat = it.next().unwrap().to_string(); for f in it { u.refcell_mut_unless.push((feat.clone(), f.to_string())); } }
            "shape-attr" => {
                // shape-attr C14 Bdd.cache serde(with="vectorize")
                let mut it = rest.split_whitespace(); let props: Vec<String> = it.next().unwrap().split('+').map(|s| s.to_string()).collect();
                let sf = it.next().unwrap(); let (st, fl) = sf.split_once('.').unwrap();
                let req: String = it.collect::<Vec<_>>().join("");
                u.shape_attrs.push((st.to_string(), fl.to_string(), req, props));
            }
            "no-structural" => u.no_structural.extend(rest.split_whitespace().map(|s| s.to_string())),
            "drop-derive" => u.drop_derives.extend(rest.split_whitespace().map(|s| s.to_string())),
            "mono-fn" => {
                let mut it = rest.split_whitespace(); let orig = it.next().unwrap().to_string(); let newn = it.next().unwrap().to_string();
                let maps: Vec<(String, String)> = it.map(|kv| { let (k, v) = kv.split_once('=').unwrap(); (k.to_string(), v.to_string()) }).collect();
                u.mono_fns.push((orig, newn, maps));
            }
            "mono-vec" => { let mut it = rest.split_whitespace(); let f = it.next().unwrap().to_string(); let p = it.next().unwrap().to_string(); u.mono_vec.push((f, p)); }
            "copy-borrow" => { let mut it = rest.split_whitespace(); let f = it.next().unwrap().to_string(); for v in it { u.copy_borrow.push((f.clone(), v.to_string())); } }
            "refcell-field" => u.refcell_fields.extend(rest.split_whitespace().map(|s| s.to_string())),
            "fn" => { cur_fn = Some(rest.trim().to_string()); section = None; u.fns.insert(rest.trim().to_string(), FnSpec::default()); }
            "ret" => { u.fns.get_mut(cur_fn.as_ref().unwrap()).unwrap().ret = Some(rest.trim().to_string()); }
            "cfg" => { u.fns.get_mut(cur_fn.as_ref().unwrap()).unwrap().cfg = Some(rest.trim().to_string()); }
            "no-autopost" => { u.fns.get_mut(cur_fn.as_ref().unwrap()).unwrap().no_autopost = true; }
            "end" => { cur_fn = None; section = None; }
            "before-call" => { u.fns.get_mut(cur_fn.as_ref().unwrap()).unwrap().before_call.push((norm(rest), String::new())); section = Some(line.to_string()); }
            "after-call" => { u.fns.get_mut(cur_fn.as_ref().unwrap()).unwrap().after_call.push((norm(rest), String::new())); section = Some(line.to_string()); }
            "before-if" => { u.fns.get_mut(cur_fn.as_ref().unwrap()).unwrap().before_if.push((norm(rest), String::new())); section = Some(line.to_string()); }
            "then-start" => { u.fns.get_mut(cur_fn.as_ref().unwrap()).unwrap().then_start.push((norm(rest), String::new())); section = Some(line.to_string()); }
            "else-start" => { u.fns.get_mut(cur_fn.as_ref().unwrap()).unwrap().else_start.push((norm(rest), String::new())); section = Some(line.to_string()); }
            "arm-start" => { u.fns.get_mut(cur_fn.as_ref().unwrap()).unwrap().arm_start.push((norm(rest), String::new())); section = Some(line.to_string()); }
            "before-continue" => { section = Some("before-continue".to_string()); }
            "after-let" => { u.fns.get_mut(cur_fn.as_ref().unwrap()).unwrap().after_let.push((norm(rest), String::new())); section = Some(line.to_string()); }
            "outline-expr" => { let (a, b) = rest.split_once("=>").expect("outline-expr A => B"); u.fns.get_mut(cur_fn.as_ref().unwrap()).unwrap().outline_exprs.push((norm(a), b.trim().to_string())); }
            "dead-arm" => { let (f, c) = rest.trim().split_once(' ').unwrap(); u.fns.get_mut(cur_fn.as_ref().unwrap()).unwrap().dead_arms.push((f.to_string(), norm(c).chars().filter(|ch| !ch.is_ascii_digit()).collect())); }
            "dead-else" => { let (f, c) = rest.trim().split_once(' ').unwrap(); u.fns.get_mut(cur_fn.as_ref().unwrap()).unwrap().dead_else.push((f.to_string(), norm(c))); }
            "dead-branch" => { let (f, c) = rest.trim().split_once(' ').unwrap(); u.fns.get_mut(cur_fn.as_ref().unwrap()).unwrap().dead_conds.push((f.to_string(), norm(c))); }
            "loop-start" | "loop-end" | "before-loop" => { section = Some(line.trim().to_string()); }
            "requires" | "ensures" | "decreases" | "start" | "return" | "attrs" | "loop" => {
                section = Some(if kw == "loop" { line.trim().to_string() } else { kw.to_string() });
                if kw == "loop" { let mut it = rest.split_whitespace(); let n: usize = it.next().unwrap().parse().unwrap(); if it.next() == Some("if") { let c = it.next().unwrap().to_string(); u.fns.get_mut(cur_fn.as_ref().unwrap()).unwrap().loops_cond.insert(n, c); } }
                if kw != "loop" && !rest.trim().is_empty() { push(&mut u, &cur_fn, &section, &format!("    {}", rest)); }
            }
            _ => panic!("vspec: unknown keyword {:?} in line {}", kw, i),
        }
    }
    let unit_props = u.props.clone();
    for (_, spec) in u.fns.iter_mut() {
        let default = if spec.props.is_empty() { unit_props.clone() } else { spec.props.clone() };
        spec.requires = split_clauses(&spec.raw_requires);
        spec.ensures = split_clauses(&spec.raw_ensures).iter().map(|c| parse_tagged(c, &default)).collect();
        if spec.props.is_empty() { spec.props = default; }
    }
    u
}
