#!/usr/bin/env python3
"""Re-runs, from the CURRENT /verif against a scratch worktree (VERIF_REPO), the owning property's check for every kept
seeded change under /verif/seeded/<ID>-<X>/ and records the outcome in meta.json["verif_checks_current"].
Usage: seedrecheck.py [ID-X ...]   (default: all)"""
import sys, os, json, subprocess, time, glob
ROOT = os.path.dirname(os.path.dirname(os.path.abspath(__file__)))
WT = os.environ.get("SEED_WT", "/tmp/seedwt")

def sh(cmd, cwd=None, env=None, timeout=3600):
    p = subprocess.run(cmd, shell=True, cwd=cwd, capture_output=True, text=True, timeout=timeout, env=env)
    return p.returncode, p.stdout + p.stderr

def main():
    if not os.path.exists(WT):
        sh(f"git -C /repo worktree add --detach {WT} HEAD")
    claimed = [c["property_id"] for c in json.load(open(f"{ROOT}/MANIFEST.json"))["checks"]]
    dirs = [f"{ROOT}/seeded/{a}" for a in sys.argv[1:]] or sorted(glob.glob(f"{ROOT}/seeded/C*"))
    commit = subprocess.run("git -C /verif rev-parse --short HEAD", shell=True, capture_output=True, text=True).stdout.strip()
    for d in dirs:
        name = os.path.basename(d)
        pid = name.split("-")[0]
        meta = json.load(open(f"{d}/meta.json"))
        sh("git checkout -- . ", cwd=WT)
        rc, o = sh(f"git apply {d}/patch.diff", cwd=WT)
        if rc != 0:
            print(name, "patch does not apply", o[-200:]); continue
        env = dict(os.environ, VERIF_REPO=WT)
        res = {}
        if pid in claimed:
            for tier in (("quick", "thorough") if os.environ.get("SEED_THOROUGH") else ("quick",)):
                t0 = time.time()
                rc, o = sh(f"./check {pid} --tier {tier}", cwd=ROOT, env=env)
                lines = [l[:300] for l in o.splitlines() if l.startswith(("VIOLATION", "UNDECIDED", "TOOL-ERROR", "note (undecided)"))][:3]
                res[f"{pid}/{tier}"] = dict(exit=rc, lines=lines, wall_s=round(time.time() - t0))
                print(name, tier, "exit", rc, (lines[:1] or [""])[0][:200], flush=True)
                if rc == 1:
                    break
        else:
            res[pid] = "property not claimed (not applicable)"
            print(name, "not claimed", flush=True)
        sh("git checkout -- . ", cwd=WT)
        meta["verif_checks_current"] = dict(commit=commit, results=res)
        json.dump(meta, open(f"{d}/meta.json", "w"), indent=1)

main()
