#!/usr/bin/env python3
"""Regenerates /verif/MANIFEST.json from lib/vconf.py and lib/vmanifest.py (single source of truth)."""
import json, os, sys
ROOT = os.path.dirname(os.path.dirname(os.path.abspath(__file__)))
sys.path.insert(0, os.path.join(ROOT, "lib"))
from vconf import PROPS
from vmanifest import LEVELS, NOT_APPLICABLE, HOOKS

props = [json.loads(l) for l in open(os.path.join(ROOT, "properties.jsonl"))]
checks = []
for p in props:
    pid = p["id"]
    if pid not in PROPS or pid not in LEVELS:
        continue
    lv = LEVELS[pid]
    checks.append(dict(
        property_id=pid,
        quick_cmd=f"./check {pid} --tier quick",
        thorough_cmd=f"./check {pid} --tier thorough",
        evidence_file=f"/verif/evidence/{pid}.json",
        replay_cmd_template=f"./check {pid} --replay {{path}}",
        engine="vx+verus",
        level_claimed=dict(category="proof", text=lv["text"], design_ref=lv.get("design_ref", "DESIGN.md section 5")),
        level_note=lv["note"],
        technique=lv.get("technique", "contract-based deductive verification (Verus) of the real functions extracted mechanically from /repo on every run"),
    ))
na = [dict(property_id=p["id"], reason=NOT_APPLICABLE.get(p["id"], "not reached yet (see DESIGN.md section 0 for the planned decision)")) for p in props if p["id"] not in [c["property_id"] for c in checks]]
m = dict(
    version=1,
    setup_cmd="cargo build --release --offline --manifest-path tools/vx/Cargo.toml",
    hooks=HOOKS,
    engines=[dict(name="vx+verus", path="/verif/check", serves_properties=[c["property_id"] for c in checks],
                  kind_free_text="vx (syn-based extractor/lowerer/splicer, /verif/tools/vx) regenerates one Verus file per unit from /repo's working tree and contracts/*.vspec on every run; Verus 0.2026.09.13 discharges every obligation; the driver classifies failures against known_findings.json and ledger/")],
    checks=checks,
    not_applicable=na,
    notes="Exit 0 = every obligation owned by the property discharged (KNOWN-FINDING lines for listed open findings); exit 1 = VIOLATION line; exit 2 = UNDECIDED (tool limit / lost anchor / a dependency's obligation failed) - never on the unchanged tree.",
)
json.dump(m, open(os.path.join(ROOT, "MANIFEST.json"), "w"), indent=1)
print("checks:", [c["property_id"] for c in checks], "n/a:", [x["property_id"] for x in na])
