#!/usr/bin/env python3
"""Self-check of contract strength (not a registered check): small syntactic mutants of every function under contract,
each run through the owning unit's verifier (`./check --unit U` against a scratch copy of lib/src).  A mutant SURVIVES when the
unit still verifies with no new failing obligation; survivors are listed for manual triage (equivalent mutant / dead code /
contract too weak).  Usage: mutate.py UNIT [--per-fn N] [--jobs J] [--seed S] [--only FN_SUBSTR]"""
import sys, os, re, json, subprocess, shutil, random, tempfile, concurrent.futures as cf

ROOT = os.path.dirname(os.path.dirname(os.path.abspath(__file__)))
REPO = os.environ.get("VERIF_REPO", "/repo")
OPS = [
    (r"<=", "<"), (r">=", ">"), (r"(?<![<>=!-])<(?![=<])", "<="), (r"(?<![<>=!-])>(?![=>])", ">="),
    (r"==", "!="), (r"!=", "=="), (r"&&", "||"), (r"\|\|", "&&"),
    (r"\+ 1\b", "+ 2"), (r"- 1\b", "- 0"), (r"\+= 1\b", "+= 2"), (r"\btrue\b", "false"), (r"\bfalse\b", "true"),
    (r"Term::TOP", "Term::BOT"), (r"Term::BOT", "Term::TOP"), (r"\.lo\(\)", ".hi()"), (r"\.hi\(\)", ".lo()"),
    (r"\.is_true\(\)", ".is_truth_value()"), (r"!self\.", "self."), (r"!(\w)", r"\1"),
    (r"Term::UND", "Term::BOT"), (r"\bbreak;", ""), (r"\bcontinue;", ""),
]


def fn_span(lines, start):
    """start: 1-based line of `fn`; returns (first, last) 1-based lines of the function by brace matching"""
    depth, seen, i = 0, False, start - 1
    while i < len(lines):
        code = re.sub(r'"(\\.|[^"\\])*"', '""', lines[i].split("//")[0])
        for ch in code:
            if ch == "{":
                depth += 1; seen = True
            elif ch == "}":
                depth -= 1
        if seen and depth <= 0:
            return start, i + 1
        i += 1
    return start, start


BASE_NOTES = None
CFG = sys.argv[sys.argv.index("--cfg") + 1] if "--cfg" in sys.argv else "default"


def run_unit(unit, repo):
    p = subprocess.run([os.path.join(ROOT, "check"), "--unit", unit, "--cfg", CFG], capture_output=True, text=True, env=dict(os.environ, VERIF_REPO=repo), timeout=900)
    out = p.stdout + p.stderr
    st = re.search(r"status=(\S+)", out)
    fails = sorted(set(re.findall(r"^\s+FAIL (\S+)", out, re.M)))
    status = st.group(1) if st else "?"
    notes = sorted(set(re.findall(r"^vx: note: .*$", out, re.M)))
    if "functions kept by contract only" in out or "LOST ANCHOR" in out or (BASE_NOTES is not None and notes != BASE_NOTES):
        status = "frontend/anchor"           # the mutant does not type-check or moved an anchor: not a verdict on the contract
    return status, fails, (out, notes)


def main():
    unit = sys.argv[1]
    per_fn = int(sys.argv[sys.argv.index("--per-fn") + 1]) if "--per-fn" in sys.argv else 8
    jobs = int(sys.argv[sys.argv.index("--jobs") + 1]) if "--jobs" in sys.argv else 6
    seed = int(sys.argv[sys.argv.index("--seed") + 1]) if "--seed" in sys.argv else 1
    only = sys.argv[sys.argv.index("--only") + 1] if "--only" in sys.argv else None
    rng = random.Random(seed)
    sys.path.insert(0, os.path.join(ROOT, "lib"))
    from vconf import UNITS, CFGS
    # sidecar of the unit on the unchanged tree
    tmp = tempfile.mkdtemp(prefix="mut-base-")
    vx = os.path.join(ROOT, "tools/vx/target/release/vx")
    cmd = [vx] + sum((["--cfg", f] for f in CFGS[CFG]), []) + [REPO, os.path.join(ROOT, "contracts", UNITS[unit]["vspec"]), os.path.join(tmp, "u.rs")]
    subprocess.run(cmd, check=True, capture_output=True)
    side = json.load(open(os.path.join(tmp, "u.rs.json")))
    global BASE_NOTES
    base_status, base_fails, (_, BASE_NOTES) = run_unit(unit, REPO)
    print(f"baseline {unit}: status={base_status} failing={len(base_fails)}", flush=True)
    muts = []
    for f in side["functions"]:
        if f["contract_only"] or (only and only not in f["path"]):
            continue
        src = os.path.join(REPO, f["src"])
        lines = open(src).read().split("\n")
        a, b = fn_span(lines, f["src_line"])
        cands = []
        in_log = 0          # inside a multi-line log::...!( .. ) macro call: its arguments are not evaluated in the verified text
        for ln in range(a + 1, b + 1):
            text = lines[ln - 1]
            code = text.split("//")[0]
            if in_log > 0 or "log::" in code:
                start = code.index("log::") if (in_log == 0 and "log::" in code) else 0
                seg = re.sub(r'"(\\.|[^"\\])*"', '""', code[start:])
                in_log += seg.count("(") - seg.count(")")
                in_log = max(in_log, 0)
                continue
            if "log::" in code or code.strip().startswith(("#[", "///")) or ".expect(" in code and '"' in code and code.strip().startswith('"'):
                continue
            for pat, rep in OPS:
                for m in re.finditer(pat, code):
                    # not inside a string literal
                    if code[:m.start()].count('"') % 2 == 1:
                        continue
                    new = code[:m.start()] + m.expand(rep) + code[m.end():] + text[len(code):]
                    cands.append((f["path"], f["src"], ln, text.strip(), new))
        rng.shuffle(cands)
        muts += cands[:per_fn]
    print(f"{len(muts)} mutants", flush=True)

    def one(k_m):
        k, (fn, src, ln, old, new) = k_m
        d = tempfile.mkdtemp(prefix="mut-")
        try:
            shutil.copytree(os.path.join(REPO, "lib", "src"), os.path.join(d, "lib", "src"))
            p = os.path.join(d, src)
            L = open(p).read().split("\n")
            L[ln - 1] = new
            open(p, "w").write("\n".join(L))
            st, fails, out = run_unit(unit, d)
            new_f = [x for x in fails if x not in base_fails]
            if st != "ok":
                verdict = "rejected(" + st + ")"
            elif new_f:
                verdict = "killed"
            else:
                verdict = "SURVIVED"
            return dict(fn=fn, src=src, line=ln, old=old, new=new.strip(), verdict=verdict, failing=new_f[:2])
        finally:
            shutil.rmtree(d, ignore_errors=True)

    res = []
    with cf.ThreadPoolExecutor(max_workers=jobs) as ex:
        for r in ex.map(one, enumerate(muts)):
            res.append(r)
            if r["verdict"] == "SURVIVED":
                print(f"SURVIVED {r['fn']} {r['src']}:{r['line']}: `{r['old']}` -> `{r['new']}`", flush=True)
    import collections
    c = collections.Counter(r["verdict"].split("(")[0] for r in res)
    print("summary", unit, dict(c), flush=True)
    json.dump(res, open(f"/var/tmp/mutate-{unit}-{CFG}.json", "w"), indent=1)
    shutil.rmtree(tmp, ignore_errors=True)


main()
