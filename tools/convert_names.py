#!/usr/bin/env python3
"""one-off helper: rewrites hard-coded generated loop-local names (__k0, __n2, ...) in a .vspec into $k / $k@N placeholders"""
import sys, json, re, subprocess
vspec, feats = sys.argv[1], sys.argv[2:]
cmd = ["tools/vx/target/release/vx"]
for f in feats: cmd += ["--cfg", f]
subprocess.run(cmd + ["/repo", vspec, "/var/tmp/conv.rs"], check=True, capture_output=True)
side = json.load(open("/var/tmp/conv.rs.json"))
names = {f["path"]: f["loop_names"] for f in side["functions"]}
out, cur_fn, cur_loop = [], None, None
for line in open(vspec).read().split("\n"):
    kw = line.split(" ")[0] if line and not line[0].isspace() else None
    if kw == "fn": cur_fn = line.split(" ", 1)[1].strip(); cur_loop = None
    elif kw in ("loop", "loop-start", "loop-end"): cur_loop = line.split()[1]
    elif kw is not None: cur_loop = None
    if cur_fn in names and names[cur_fn]:
        for n, mp in names[cur_fn].items():
            for a, b in mp.items():
                rep = ("$" + a) if (cur_loop == n) else ("$%s@%s" % (a, n))
                line = re.sub(r"\b%s\b" % re.escape(b), rep.replace("\\", "\\\\"), line)
    out.append(line)
open(vspec, "w").write("\n".join(out))
