//! Replay harness (DESIGN 3.6): executable form of the top-level contracts on the REAL crate, over small inputs.
//! It is not a deciding step: it searches a concrete failing input for an obligation the verifier could not discharge,
//! and cross-checks assumed dependency specs in the thorough tier.
//!   verif_replay <bdd|adf|ng|iters|persist|mirror> <seed> <budget>      prints one JSON line: {"witness": ...} or {"witness": null, "checked": N}
use adf_bdd::adf::heuristics::Heuristic;
use adf_bdd::adf::Adf;
use adf_bdd::datatypes::adf::{ThreeValuedInterpretationsIterator, TwoValuedInterpretationsIterator};
use adf_bdd::datatypes::{BddNode, Term, Var};
use adf_bdd::nogoods::{DuplicateElemination, NoGood, NoGoodStore};
use adf_bdd::obdd::Bdd;
use adf_bdd::parser::AdfParser;
use std::collections::{BTreeMap, BTreeSet, HashMap};

struct Rng(u64);
impl Rng {
    fn next(&mut self) -> u64 { self.0 ^= self.0 << 13; self.0 ^= self.0 >> 7; self.0 ^= self.0 << 17; self.0 }
    fn below(&mut self, n: usize) -> usize { (self.next() % (n as u64)) as usize }
}
thread_local! { static FOUND: std::cell::RefCell<BTreeMap<String, String>> = std::cell::RefCell::new(BTreeMap::new()); }
// record a finding under the property tag(s) it starts with ("C07/C11: ..." counts for both); the first per tag is kept
fn record(msg: String) {
    let head: String = msg.split(|c: char| c == ':' || c == ' ').next().unwrap_or("").to_string();
    FOUND.with(|f| { let mut f = f.borrow_mut(); for tag in head.split('/') { if tag.starts_with('C') { f.entry(tag.to_string()).or_insert(msg.clone()); } else { f.entry("?".to_string()).or_insert(msg.clone()); } } });
}
fn out(w: Option<String>, checked: usize) -> ! {
    if let Some(s) = w { record(s); }
    let m = FOUND.with(|f| f.borrow().clone());
    println!("{{\"witnesses\": {}, \"checked\": {}}}", serde_json::to_string(&m).unwrap(), checked);
    std::process::exit(0)
}
fn n_found() -> usize { FOUND.with(|f| f.borrow().len()) }

// ------------------------------------------------------------------ diagrams (C06 C07 C11 C13)
const NV: usize = 4;
type TT = u16; // truth table over NV variables: bit a = value under assignment a (bit i of a = variable i)
fn tt_var(i: usize) -> TT { let mut t = 0; for a in 0..(1 << NV) { if (a >> i) & 1 == 1 { t |= 1 << a; } } t }
fn eval_handle(nodes: &[BddNode], t: Term, a: usize) -> bool {
    let mut cur = t;
    let mut steps = 0;
    loop {
        if cur == Term::TOP { return true; } if cur == Term::BOT { return false; }
        let n = nodes[cur.value()];
        cur = if (a >> n.var().value()) & 1 == 1 { n.hi() } else { n.lo() };
        steps += 1; if steps > 10_000 { return false; }
    }
}
fn tt_of(nodes: &[BddNode], t: Term) -> TT { let mut r = 0; for a in 0..(1 << NV) { if eval_handle(nodes, t, a) { r |= 1 << a; } } r }
fn tt_restrict(f: TT, v: usize, b: bool) -> TT { let mut r = 0; for a in 0..(1usize << NV) { let a2 = if b { a | (1 << v) } else { a & !(1 << v) }; if (f >> a2) & 1 == 1 { r |= 1 << a; } } r }
fn tt_depends(f: TT, v: usize) -> bool { tt_restrict(f, v, true) != tt_restrict(f, v, false) }
fn canonical(nodes: &[BddNode]) -> Option<String> {
    let mut seen = BTreeSet::new();
    for (i, n) in nodes.iter().enumerate().skip(2) {
        if n.lo() == n.hi() { return Some(format!("node {} has equal branches", i)); }
        if n.lo().value() >= i || n.hi().value() >= i { return Some(format!("node {} has a child that is not earlier", i)); }
        for c in [n.lo(), n.hi()] { if c.value() >= 2 && nodes[c.value()].var() <= n.var() { return Some(format!("node {} is not ordered", i)); } }
        if !seen.insert((n.var().value(), n.lo().value(), n.hi().value())) { return Some(format!("node {} is a duplicate", i)); }
    }
    None
}
fn paths_ref(nodes: &[BddNode], t: Term) -> (usize, usize, usize) { // (paths to bot, paths to top, depth)
    if t == Term::BOT { return (1, 0, 0); } if t == Term::TOP { return (0, 1, 0); }
    let n = nodes[t.value()]; let l = paths_ref(nodes, n.lo()); let h = paths_ref(nodes, n.hi());
    (l.0 + h.0, l.1 + h.1, l.2.max(h.2) + 1)
}
fn run_bdd(seed: u64, budget: usize) -> ! {
    let mut rng = Rng(seed.wrapping_mul(0x9E3779B97F4A7C15) | 1);
    let mut checked = 0;
    'round: for _round in 0..budget {
        if n_found() >= 6 { break; }
        let mut bdd = Bdd::new();
        let mut hs: Vec<(Term, TT)> = vec![(Term::BOT, 0), (Term::TOP, !0)];
        let mut log: Vec<String> = vec![];
        let steps = 6 + rng.below(14);
        for _ in 0..steps {
            let op = rng.below(9);
            let a = hs[rng.below(hs.len())]; let b = hs[rng.below(hs.len())];
            let (t, exp, what) = match op {
                0 => { let v = rng.below(NV); (bdd.variable(Var(v)), tt_var(v), format!("variable({})", v)) }
                1 => (bdd.not(a.0), !a.1, format!("not({:?})", a.0)),
                2 => (bdd.and(a.0, b.0), a.1 & b.1, format!("and({:?},{:?})", a.0, b.0)),
                3 => (bdd.or(a.0, b.0), a.1 | b.1, format!("or({:?},{:?})", a.0, b.0)),
                4 => (bdd.imp(a.0, b.0), !a.1 | b.1, format!("imp({:?},{:?})", a.0, b.0)),
                5 => (bdd.iff(a.0, b.0), !(a.1 ^ b.1), format!("iff({:?},{:?})", a.0, b.0)),
                6 => (bdd.xor(a.0, b.0), a.1 ^ b.1, format!("xor({:?},{:?})", a.0, b.0)),
                _ => { let v = rng.below(NV); let val = rng.below(2) == 1; (bdd.restrict(a.0, Var(v), val), tt_restrict(a.1, v, val), format!("restrict({:?},{},{})", a.0, v, val)) }
            };
            log.push(format!("{} -> {:?}", what, t));
            checked += 1;
            let got = tt_of(&bdd.nodes, t);
            if got != exp { record(format!("C07: {} denotes truth table {:#06x}, expected {:#06x}; history: {}", what, got, exp, log.join("; "))); continue 'round; }
            for (h, e) in &hs { if tt_of(&bdd.nodes, *h) != *e { record(format!("C07/C11: handle {:?} changed its function after {}; history: {}", h, what, log.join("; "))); continue 'round; } }
            if let Some(p) = canonical(&bdd.nodes) { record(format!("C06: {} after {}; history: {}", p, what, log.join("; "))); continue 'round; }
            hs.push((t, exp));
            for (h2, e2) in &hs { if (*h2 == t) != (*e2 == exp) { record(format!("C06: handles {:?} and {:?} violate 'same handle iff same function' after {}; history: {}", h2, t, what, log.join("; "))); continue 'round; } }
            // counts, depth, supports (C13)
            let (pb, pt, d) = paths_ref(&bdd.nodes, t);
            for memo in [true, false] {
                let p = bdd.paths(t, memo);
                if p.cmodels != pb || p.models != pt { record(format!("C13: paths({:?},{}) = ({},{}) expected ({},{}); history: {}", t, memo, p.cmodels, p.models, pb, pt, log.join("; "))); continue 'round; }
            }
            if bdd.max_depth(t) != d { record(format!("C13: max_depth({:?}) = {} expected {}; history: {}", t, bdd.max_depth(t), d, log.join("; "))); continue 'round; }
            let deps = bdd.var_dependencies(t);
            for v in 0..NV { if deps.contains(&Var(v)) != tt_depends(exp, v) { record(format!("C13: var_dependencies({:?}) wrong for variable {}; history: {}", t, v, log.join("; "))); continue 'round; } }
            let m = bdd.models(t, false);
            let sat = (exp as u32).count_ones() as usize; let unsat = (1usize << NV) - sat;
            if m.models * unsat != m.cmodels * sat { record(format!("C13: models({:?}) = ({},{}) not in ratio {}:{}; history: {}", t, m.cmodels, m.models, unsat, sat, log.join("; "))); continue 'round; }
            // the memoised counts, asked for AFTER the memoised paths (the count table is shared); the documented exception
            // (adhoccounting without adhoccountmodels: the table holds no model counts) is left out
            if cfg!(not(feature = "adhoccounting")) || cfg!(feature = "adhoccountmodels") {
                let mm = bdd.models(t, true);
                if mm.models * unsat != mm.cmodels * sat || (mm.models == 0 && mm.cmodels == 0) { record(format!("C13: models({:?},memo) = ({},{}) not in ratio {}:{}; history: {}", t, mm.cmodels, mm.models, unsat, sat, log.join("; "))); continue 'round; }
                let p2 = bdd.paths(t, true);
                if p2.cmodels != pb || p2.models != pt { record(format!("C13: paths({:?},memo) after models(memo) = ({},{}) expected ({},{}); history: {}", t, p2.cmodels, p2.models, pb, pt, log.join("; "))); continue 'round; }
            }
            if m.models == 0 && m.cmodels == 0 { record(format!("C13: models({:?}) = (0,0); history: {}", t, log.join("; "))); continue 'round; }
        }
        // memo audit (C11 / C07): whatever the earlier operations left in the memo tables, restricting ANY issued handle by any
        // variable still gives the cofactor
        for (h, e) in hs.clone() {
            for v in 0..NV { for val in [true, false] {
                let r = bdd.restrict(h, Var(v), val);
                if r.value() >= bdd.nodes.len() || tt_of(&bdd.nodes, r) != tt_restrict(e, v, val) { record(format!("C07/C11: restrict({:?},{},{}) is wrong after the history (a stale or wrong memo entry?); history: {}", h, v, val, log.join("; "))); continue 'round; }
            } }
        }
        // impact measures on a random term list
        let tl: Vec<Term> = (0..NV).map(|_| hs[rng.below(hs.len())].0).collect();
        let tts: Vec<TT> = tl.iter().map(|t| tt_of(&bdd.nodes, *t)).collect();
        for v in 0..NV {
            let passive = tts.iter().filter(|f| tt_depends(**f, v)).count();
            if bdd.passive_var_impact(Var(v), &tl) != passive { record(format!("C13: passive_var_impact({}) wrong on {:?}; history: {}", v, tl, log.join("; "))); continue 'round; }
            let active = (0..NV).filter(|i| tt_depends(tts[v], *i)).count();
            if bdd.active_var_impact(Var(v), &tl) != active { record(format!("C13: active_var_impact({}) wrong on {:?}; history: {}", v, tl, log.join("; "))); continue 'round; }
        }
        // rebuild from the plain node list (C14)
        // C13 path cubes: pairwise disjoint, and where the goal variable has the goal value they cover exactly the (counter-)models
        for (h, e) in &hs {
            if h.value() < 2 { continue; }
            for goal in [true, false] { for gv in 0..NV {
                let cubes = bdd.interpretations(*h, goal, Var(gv), &[], &[]);
                // no path cube contradicts the goal at the goal variable (clause glit_ok of the cube contract, used by C04's each-once proof)
                if cubes.iter().any(|c| if goal { c.0.contains(&Var(gv)) } else { c.1.contains(&Var(gv)) }) { record(format!("C13: interpretations({:?},{},{}) returns a cube that sets the goal variable against the goal; history: {}", h, goal, gv, log.join("; "))); continue 'round; }
                let sat = |c: &(Vec<Var>, Vec<Var>), a: usize| c.0.iter().all(|v| (a >> v.value()) & 1 == 0) && c.1.iter().all(|v| (a >> v.value()) & 1 == 1);
                for a in 0..(1usize << NV) {
                    let n_sat = cubes.iter().filter(|c| sat(c, a)).count();
                    if n_sat > 1 { record(format!("C13: interpretations({:?},{},{}) has overlapping cubes at assignment {:#b}; history: {}", h, goal, gv, a, log.join("; "))); continue 'round; }
                    if ((a >> gv) & 1 == 1) == goal && (n_sat == 1) != (((*e >> a) & 1 == 1) == goal) { record(format!("C13: interpretations({:?},{},{}) covers assignment {:#b} wrongly ({} cubes); history: {}", h, goal, gv, a, n_sat, log.join("; "))); continue 'round; }
                }
            } }
        }
        let mut re = Bdd::from(bdd.nodes.clone());
        if re.nodes != bdd.nodes { record(format!("C14: rebuild from node list renumbers; history: {}", log.join("; "))); continue 'round; }
        // ... and the rebuilt store is a store like any other: every issued handle can be re-derived (same handle, no new node
        // for an existing function) and further operations stay canonical (C14 / C06)
        for v in 0..NV {
            let before = re.nodes.len();
            let t = re.variable(Var(v));
            if let Some((h, _)) = hs.iter().find(|(_, e)| *e == tt_var(v)) { if *h != t || re.nodes.len() != before { record(format!("C14/C06: variable({}) on the rebuilt store is {:?}, the original store had {:?}; history: {}", v, t, h, log.join("; "))); continue 'round; } }
        }
        let mut hs2 = hs.clone();
        for _ in 0..6 {
            let op = rng.below(5);
            let a = hs2[rng.below(hs2.len())]; let b = hs2[rng.below(hs2.len())];
            let (t, exp, what) = match op {
                0 => (re.not(a.0), !a.1, format!("not({:?})", a.0)),
                1 => (re.and(a.0, b.0), a.1 & b.1, format!("and({:?},{:?})", a.0, b.0)),
                2 => (re.or(a.0, b.0), a.1 | b.1, format!("or({:?},{:?})", a.0, b.0)),
                3 => (re.xor(a.0, b.0), a.1 ^ b.1, format!("xor({:?},{:?})", a.0, b.0)),
                _ => { let v = rng.below(NV); let val = rng.below(2) == 1; (re.restrict(a.0, Var(v), val), tt_restrict(a.1, v, val), format!("restrict({:?},{},{})", a.0, v, val)) }
            };
            checked += 1;
            if t.value() >= re.nodes.len() || tt_of(&re.nodes, t) != exp { record(format!("C14/C06: on the store rebuilt from the node list, {} -> {:?} denotes the wrong function; history: {}", what, t, log.join("; "))); continue 'round; }
            if let Some(p) = canonical(&re.nodes) { record(format!("C14/C06: rebuilt store: {} after {}; history: {}", p, what, log.join("; "))); continue 'round; }
            hs2.push((t, exp));
            for (h2, e2) in &hs2 { if (*h2 == t) != (*e2 == exp) { record(format!("C14/C06: rebuilt store: handles {:?} and {:?} violate 'same handle iff same function' after {}; history: {}", h2, t, what, log.join("; "))); continue 'round; } }
        }
    }
    out(None, checked)
}

// ------------------------------------------------------------------ ADF semantics (C01 C02 C03 C05 C09)
#[derive(Clone, Debug)]
enum F { Top, Bot, Atom(usize), Not(Box<F>), And(Box<F>, Box<F>), Or(Box<F>, Box<F>), Imp(Box<F>, Box<F>), Xor(Box<F>, Box<F>), Iff(Box<F>, Box<F>) }
fn gen_f(rng: &mut Rng, n: usize, depth: usize) -> F {
    let k = if depth == 0 { rng.below(3) } else { rng.below(9) };
    let mut sub = |rng: &mut Rng| Box::new(gen_f(rng, n, depth.saturating_sub(1)));
    match k { 0 => F::Atom(rng.below(n)), 1 => F::Atom(rng.below(n)), 2 => if rng.below(2) == 0 { F::Top } else { F::Bot }, 3 => F::Not(sub(rng)), 4 => F::And(sub(rng), sub(rng)), 5 => F::Or(sub(rng), sub(rng)), 6 => F::Imp(sub(rng), sub(rng)), 7 => F::Xor(sub(rng), sub(rng)), _ => F::Iff(sub(rng), sub(rng)) }
}
fn name(i: usize) -> String { format!("s{}", i) }
fn show(f: &F) -> String {
    match f { F::Top => "c(v)".into(), F::Bot => "c(f)".into(), F::Atom(i) => name(*i), F::Not(a) => format!("neg({})", show(a)),
        F::And(a, b) => format!("and({},{})", show(a), show(b)), F::Or(a, b) => format!("or({},{})", show(a), show(b)), F::Imp(a, b) => format!("imp({},{})", show(a), show(b)),
        F::Xor(a, b) => format!("xor({},{})", show(a), show(b)), F::Iff(a, b) => format!("iff({},{})", show(a), show(b)) }
}
fn ev(f: &F, a: usize) -> bool {
    match f { F::Top => true, F::Bot => false, F::Atom(i) => (a >> i) & 1 == 1, F::Not(x) => !ev(x, a), F::And(x, y) => ev(x, a) && ev(y, a), F::Or(x, y) => ev(x, a) || ev(y, a),
        F::Imp(x, y) => !ev(x, a) || ev(y, a), F::Xor(x, y) => ev(x, a) != ev(y, a), F::Iff(x, y) => ev(x, a) == ev(y, a) }
}
type V3 = Vec<Option<bool>>;
// consequence operator: value of f under all two-valued completions of v
fn gamma(f: &F, v: &V3) -> Option<bool> {
    let n = v.len(); let (mut t, mut fl) = (false, false);
    for a in 0..(1usize << n) {
        if (0..n).all(|i| v[i].map(|b| b == ((a >> i) & 1 == 1)).unwrap_or(true)) { if ev(f, a) { t = true } else { fl = true } }
    }
    if t && !fl { Some(true) } else if fl && !t { Some(false) } else { None }
}
fn lfp(fs: &[F]) -> V3 { let mut v: V3 = vec![None; fs.len()]; loop { let w: V3 = fs.iter().map(|f| gamma(f, &v)).collect(); if w == v { return v; } v = w; } }
fn all_v3(n: usize) -> Vec<V3> { let mut r = vec![]; let mut c = vec![0u8; n]; loop { r.push(c.iter().map(|d| match d { 0 => None, 1 => Some(true), _ => Some(false) }).collect()); let mut i = 0; loop { if i == n { return r; } c[i] += 1; if c[i] < 3 { break; } c[i] = 0; i += 1; } } }
fn reduct(f: &F, v: &V3) -> F {
    match f { F::Atom(i) => if v[*i] == Some(false) { F::Bot } else { f.clone() }, F::Top | F::Bot => f.clone(), F::Not(a) => F::Not(Box::new(reduct(a, v))),
        F::And(a, b) => F::And(Box::new(reduct(a, v)), Box::new(reduct(b, v))), F::Or(a, b) => F::Or(Box::new(reduct(a, v)), Box::new(reduct(b, v))), F::Imp(a, b) => F::Imp(Box::new(reduct(a, v)), Box::new(reduct(b, v))),
        F::Xor(a, b) => F::Xor(Box::new(reduct(a, v)), Box::new(reduct(b, v))), F::Iff(a, b) => F::Iff(Box::new(reduct(a, v)), Box::new(reduct(b, v))) }
}
fn tv(t: &Term) -> Option<bool> { if *t == Term::TOP { Some(true) } else if *t == Term::BOT { Some(false) } else { None } }
fn tvs(v: &[Term]) -> V3 { v.iter().map(tv).collect() }
fn sorted(mut v: Vec<V3>) -> Vec<V3> { v.sort(); v }
/// delivery order of `stable_nogood(h)` on a freshly built ADF (`warm == 0`) or on one that has computed something else first,
/// in its own thread with a 20 s limit (termination is not proved: a search that does not return must not hang the harness)
fn order_probe(text: &str, hi: usize, warm: usize) -> Option<Vec<V3>> {
    let txt = text.to_string();
    let (tx, rx) = std::sync::mpsc::channel::<Vec<V3>>();
    std::thread::spawn(move || {
        let h = [Heuristic::Simple, Heuristic::MinModMinPathsMaxVarImp, Heuristic::MinModMaxVarImpMinPaths][hi];
        let parser = AdfParser::default();
        if parser.parse()(&txt).is_err() { return; }
        let mut adf = Adf::from_parser(&parser);
        match warm { 0 => {} 1 => { let _ = adf.grounded(); let _ = adf.complete().count(); let _ = adf.stable().count(); } 2 => { let _ = adf.stable_nogood(Heuristic::Simple).count(); } _ => { let _ = adf.complete().count(); } }
        let r: Vec<V3> = adf.stable_nogood(h).map(|v| tvs(&v)).collect();
        let _ = tx.send(r);
    });
    rx.recv_timeout(std::time::Duration::from_secs(20)).ok()
}
fn run_adf(seed: u64, budget: usize) -> ! {
    let mut rng = Rng(seed.wrapping_mul(0xD1B54A32D192ED03) | 1);
    let mut checked = 0;
    let mut c05_hung = false;
    'round: for round in 0..budget {
        if n_found() >= 6 { break; }
        let n = 1 + rng.below(4);
        let mut fs: Vec<F> = (0..n).map(|_| gen_f(&mut rng, n, 1 + (round % 3))).collect();
        // every fourth round: a symmetric ADF (the even / odd statements mirror each other): ties for the counting heuristics
        if round % 4 == 3 && n >= 2 {
            fn swap(f: &F, n: usize) -> F { match f { F::Atom(i) => F::Atom(if i ^ 1 < n { i ^ 1 } else { *i }), F::Top => F::Top, F::Bot => F::Bot, F::Not(a) => F::Not(Box::new(swap(a, n))),
                F::And(a, b) => F::And(Box::new(swap(a, n)), Box::new(swap(b, n))), F::Or(a, b) => F::Or(Box::new(swap(a, n)), Box::new(swap(b, n))), F::Imp(a, b) => F::Imp(Box::new(swap(a, n)), Box::new(swap(b, n))),
                F::Xor(a, b) => F::Xor(Box::new(swap(a, n)), Box::new(swap(b, n))), F::Iff(a, b) => F::Iff(Box::new(swap(a, n)), Box::new(swap(b, n))) } }
            for i in (1..n).step_by(2) { fs[i] = swap(&fs[i - 1], n); }
        }
        // statements declared in a random order of the ac facts (the variable order is the s() order)
        let mut text = String::new();
        for i in 0..n { text.push_str(&format!("s({}).", name(i))); }
        let mut order: Vec<usize> = (0..n).collect();
        for i in (1..n).rev() { let j = rng.below(i + 1); order.swap(i, j); }
        for &i in &order { text.push_str(&format!("ac({},{}).", name(i), show(&fs[i]))); }
        let parser = AdfParser::default();
        if parser.parse()(&text).is_err() { record(format!("C08 parser rejects generated input {}", text)); continue 'round; }
        let g = lfp(&fs);
        let complete: Vec<V3> = sorted(all_v3(n).into_iter().filter(|v| (0..n).all(|i| gamma(&fs[i], v) == v[i])).collect());
        let stable: Vec<V3> = sorted(all_v3(n).into_iter().filter(|v| v.iter().all(|x| x.is_some()) && { let r: Vec<F> = fs.iter().map(|f| reduct(f, v)).collect(); lfp(&r) == *v }).collect());
        let twoval: Vec<V3> = sorted(all_v3(n).into_iter().filter(|v| v.iter().all(|x| x.is_some()) && (0..n).all(|i| gamma(&fs[i], v) == v[i])).collect());
        // a finding is recorded under its property tag; later checks of the same round still run (other tags may fail too)
        let fail = |what: &str, got: String, exp: String| { record(format!("{} on ADF `{}`: got {} expected {}", what, text, got, exp)); };
        let mut native = Adf::from_parser(&parser);
        // C09 native: every stored handle denotes its formula
        for i in 0..n { for a in 0..(1usize << n) { if eval_handle(&native.bdd.nodes, native.ac[i], a) != ev(&fs[i], a) { fail("C09 native compile", format!("handle {:?} of {}", native.ac[i], name(i)), show(&fs[i])); } } }
        let bio = adf_bdd::adfbiodivine::Adf::from_parser(&parser);
        let bio_rw = adf_bdd::adfbiodivine::Adf::from_parser_with_stm_rewrite(&parser);
        let mut hyb = bio.hybrid_step_opt(false);
        let mut hyb_g = bio.hybrid_step();
        for i in 0..n { for a in 0..(1usize << n) { if eval_handle(&hyb.bdd.nodes, hyb.ac[i], a) != ev(&fs[i], a) { fail("C09 bridge import", format!("handle {:?} of {}", hyb.ac[i], name(i)), show(&fs[i])); } } }
        if let Some(p) = canonical(&hyb.bdd.nodes) { fail("C06 after bridge conversion", p, "canonical table".into()); }
        // pre-grounded import: condition with the grounded values substituted
        for i in 0..n { for a in 0..(1usize << n) { let a2 = (0..n).fold(a, |acc, j| match g[j] { Some(true) => acc | (1 << j), Some(false) => acc & !(1 << j), None => acc }); if eval_handle(&hyb_g.bdd.nodes, hyb_g.ac[i], a) != ev(&fs[i], a2) { fail("C09 pre-grounded import", format!("handle {:?} of {}", hyb_g.ac[i], name(i)), show(&fs[i])); } } }
        // C01
        for (what, got) in [("native", tvs(&native.grounded())), ("biodivine", tvs(&bio.grounded())), ("hybrid", tvs(&hyb.grounded())), ("hybrid pre-grounded", tvs(&hyb_g.grounded()))] {
            if got != g { fail(&format!("C01 grounded ({})", what), format!("{:?}", got), format!("{:?}", g)); }
        }
        // C02
        for (what, got) in [("native", native.complete().map(|v| tvs(&v)).collect::<Vec<_>>()), ("biodivine", bio.complete().map(|v| tvs(&v)).collect()), ("hybrid", hyb.complete().map(|v| tvs(&v)).collect())] {
            if got.first() != Some(&g) { fail(&format!("C02 complete ({}) does not list grounded first", what), format!("{:?}", got.first()), format!("{:?}", g)); }
            if sorted(got.clone()) != complete { fail(&format!("C02 complete ({})", what), format!("{:?}", got), format!("{:?}", complete)); }
        }
        // C03
        let st_variants: Vec<(&str, Vec<V3>)> = vec![
            ("native stable", native.stable().map(|v| tvs(&v)).collect()), ("native prefilter", native.stable_with_prefilter().map(|v| tvs(&v)).collect()),
            ("native stable_bdd_representation", native.stable_bdd_representation(&bio).iter().map(|v| tvs(v)).collect()),
            ("native stable_bdd_representation (rewrite)", native.stable_bdd_representation(&bio_rw).iter().map(|v| tvs(v)).collect()),
            ("biodivine stable", bio.stable().map(|v| tvs(&v)).collect()), ("biodivine stable_bdd_representation", bio.stable_bdd_representation().iter().map(|v| tvs(v)).collect()),
            ("biodivine rewrite stable_bdd_representation", bio_rw.stable_bdd_representation().iter().map(|v| tvs(v)).collect()),
            ("hybrid stable", hyb.stable().map(|v| tvs(&v)).collect()), ("hybrid pre-grounded stable", hyb_g.stable().map(|v| tvs(&v)).collect()),
        ];
        for (what, got) in st_variants { if sorted(got.clone()) != stable || got.len() != stable.len() { fail(&format!("C03 {}", what), format!("{:?}", got), format!("{:?}", stable)); } }
        // C05 (n >= 1: the search does not terminate on the empty ADF, which cannot be written in the input format anyway).
        // Termination is part of the property and is NOT proved: every search runs on a fresh object in its own thread and
        // has 20 s (these ADFs have <= 4 statements; the unchanged code needs milliseconds)
        if !c05_hung {
            for (hn, hi) in [("Simple", 0usize), ("MinModMinPathsMaxVarImp", 1), ("MinModMaxVarImpMinPaths", 2), ("Rand", 3)] {
                let txt = text.clone();
                let (tx, rx) = std::sync::mpsc::channel::<(Vec<V3>, Vec<V3>)>();
                std::thread::spawn(move || {
                    let h = [Heuristic::Simple, Heuristic::MinModMinPathsMaxVarImp, Heuristic::MinModMaxVarImpMinPaths, Heuristic::Rand][hi];
                    let parser = AdfParser::default();
                    if parser.parse()(&txt).is_err() { return; }
                    let mut adf = Adf::from_parser(&parser);
                    let st: Vec<V3> = adf.stable_nogood(h).map(|v| tvs(&v)).collect();
                    let (s, r) = crossbeam_channel::unbounded();
                    adf.two_val_nogood_channel(h, s);
                    let tw: Vec<V3> = r.iter().map(|v| tvs(&v)).collect();
                    let _ = tx.send((st, tw));
                });
                match rx.recv_timeout(std::time::Duration::from_secs(20)) {
                    Ok((got, got2)) => {
                        if sorted(got.clone()) != stable || got.len() != stable.len() { fail(&format!("C05 stable_nogood({})", hn), format!("{:?}", got), format!("{:?}", stable)); }
                        if sorted(got2.clone()) != twoval || got2.len() != twoval.len() { fail(&format!("C05 two_val_nogood_channel({})", hn), format!("{:?}", got2), format!("{:?}", twoval)); }
                    }
                    Err(_) => { fail(&format!("C05 stable_nogood / two_val_nogood_channel({}) did not return within 20 s (no termination, or the sender was not dropped)", hn), "no answer".into(), format!("{:?} / {:?}", stable, twoval)); c05_hung = true; break; }
                }
            }
        }
        // C11: the ORDER in which the nogood search delivers its models on this warm object (grounded, complete, nine stable variants
        // have run on it) equals the order on a freshly built object, for the deterministic heuristics
        if !c05_hung {
            for hi in 0..3 {
                match (order_probe(&text, hi, 0), order_probe(&text, hi, 1)) {
                    (Some(a), Some(b)) => { if a != b { fail(&format!("C11 stable_nogood(heuristic #{}) on a warm object delivers another sequence than on a fresh object", hi), format!("{:?}", b), format!("{:?}", a)); } }
                    _ => { c05_hung = true; fail(&format!("C05 stable_nogood(heuristic #{}) did not return within 20 s on a fresh / warmed-up object", hi), "no answer".into(), "termination".into()); break; }
                }
            }
        }
        // C11: repeated call on the warm object
        if tvs(&native.grounded()) != g { fail("C11 grounded on a warm object", "different".into(), format!("{:?}", g)); }
        let again: Vec<V3> = native.stable().map(|v| tvs(&v)).collect();
        if sorted(again) != stable { fail("C11 stable on a warm object", "different".into(), format!("{:?}", stable)); }
        checked += 1;
        // C11, larger symmetric instances (6 statements, mirrored pairs; no brute-force oracle needed): same delivery order of the
        // nogood search on a fresh object and on one that has computed other semantics before
        if round % 5 == 0 {
            let m = 6;
            let mut gs: Vec<F> = (0..m).map(|_| gen_f(&mut rng, m, 1 + (round % 2))).collect();
            fn swp(f: &F) -> F { match f { F::Atom(i) => F::Atom(i ^ 1), F::Top => F::Top, F::Bot => F::Bot, F::Not(a) => F::Not(Box::new(swp(a))),
                F::And(a, b) => F::And(Box::new(swp(a)), Box::new(swp(b))), F::Or(a, b) => F::Or(Box::new(swp(a)), Box::new(swp(b))), F::Imp(a, b) => F::Imp(Box::new(swp(a)), Box::new(swp(b))),
                F::Xor(a, b) => F::Xor(Box::new(swp(a)), Box::new(swp(b))), F::Iff(a, b) => F::Iff(Box::new(swp(a)), Box::new(swp(b))) } }
            for i in (1..m).step_by(2) { gs[i] = swp(&gs[i - 1]); }
            // half of these rounds: mirrored pairs hanging on a two-cycle (many stable models, ties in every counting criterion)
            if rng.below(2) == 0 {
                let (pp, qq) = (m - 2, m - 1);
                gs[pp] = if rng.below(3) == 0 { F::Atom(qq) } else { F::Not(Box::new(F::Atom(qq))) };
                gs[qq] = if rng.below(3) == 0 { F::Atom(pp) } else { F::Not(Box::new(F::Atom(pp))) };
                for pr in 0..(m - 2) / 2 {
                    let (a, a2) = (2 * pr, 2 * pr + 1);
                    let mk = |o: usize, x: usize, y: usize| -> F { let (x, y) = (Box::new(F::Atom(x)), Box::new(F::Atom(y))); match o { 0 => F::Iff(x, y), 1 => F::Xor(x, y), 2 => F::And(x, y), 3 => F::Or(x, y), _ => F::Imp(x, y) } };
                    let o = rng.below(5);
                    gs[a] = mk(o, a2, pp); gs[a2] = mk(o, a, pp);
                }
            }
            let mut t2 = String::new();
            for i in 0..m { t2.push_str(&format!("s({}).", name(i))); }
            for i in 0..m { t2.push_str(&format!("ac({},{}).", name(i), show(&gs[i]))); }
            let p2 = AdfParser::default();
            if p2.parse()(&t2).is_ok() {
                for hi in [1usize, 2, 0] {
                    if c05_hung { break; }
                    let w = 1 + rng.below(3);
                    match (order_probe(&t2, hi, 0), order_probe(&t2, hi, w)) {
                        (Some(a), Some(b)) => { if a != b { record(format!("C11 stable_nogood(heuristic #{}) on ADF `{}`: a warm object (history {}) delivers {:?}, a fresh one {:?}", hi, t2, w, b, a)); continue 'round; } }
                        _ => { c05_hung = true; record(format!("C05 stable_nogood(heuristic #{}) did not return within 20 s on ADF `{}`", hi, t2)); }
                    }
                }
            }
        }
    }
    out(None, checked)
}

// ------------------------------------------------------------------ counting-guided stable search (C04)
// bounded stand-in for the completeness / each-once clauses of C04 (the pruning recursion two_val_model_counts_logic is not
// under contract): ADFs with 2..6 statements, both heuristics, against the brute-force stable models
fn run_c04(seed: u64, budget: usize) -> ! {
    let mut rng = Rng(seed.wrapping_mul(0x9E3779B97F4A7C15) | 1);
    let mut checked = 0;
    for round in 0..budget {
        if n_found() >= 1 { break; }
        let n = 2 + rng.below(5);
        let mut fs: Vec<F> = (0..n).map(|_| gen_f(&mut rng, n, 1 + (round % 3))).collect();
        // every third round: conditions that share sub-formulas with other statements' conditions (shared sub-diagrams in the store)
        if round % 3 == 2 { for i in 1..n { if rng.below(2) == 0 { let j = rng.below(i); let other = Box::new(fs[j].clone()); let at = Box::new(F::Atom(rng.below(n))); fs[i] = match rng.below(3) { 0 => F::Or(at, other), 1 => F::And(at, other), _ => F::Or(other, at) }; } } }
        let mut text = String::new();
        for i in 0..n { text.push_str(&format!("s({}).", name(i))); }
        for i in 0..n { text.push_str(&format!("ac({},{}).", name(i), show(&fs[i]))); }
        let parser = AdfParser::default();
        if parser.parse()(&text).is_err() { continue; }
        let stable: Vec<V3> = sorted(all_v3(n).into_iter().filter(|v| v.iter().all(|x| x.is_some()) && { let r: Vec<F> = fs.iter().map(|f| reduct(f, v)).collect(); lfp(&r) == *v }).collect());
        for which in ["a", "b"] {
            let mut adf = Adf::from_parser(&parser);
            let got: Vec<V3> = if which == "a" { adf.stable_count_optimisation_heu_a().map(|v| tvs(&v)).collect() } else { adf.stable_count_optimisation_heu_b().map(|v| tvs(&v)).collect() };
            if sorted(got.clone()) != stable || got.len() != stable.len() {
                record(format!("C04 stable_count_optimisation_heu_{} on ADF `{}`: got {:?} expected {:?}", which, text, got, stable));
            }
        }
        // the same procedures on ONE ADF value, in a random call history (warm memo / count tables, C11): every answer is again
        // exactly the set of stable models
        {
            let mut adf = Adf::from_parser(&parser);
            let len = 2 + rng.below(2);
            let mut hist = String::new();
            for _ in 0..len {
                let which = ["a", "b", "s"][rng.below(3)];
                hist.push_str(which);
                let got: Vec<V3> = match which { "a" => adf.stable_count_optimisation_heu_a().map(|v| tvs(&v)).collect(), "b" => adf.stable_count_optimisation_heu_b().map(|v| tvs(&v)).collect(), _ => adf.stable().map(|v| tvs(&v)).collect() };
                if which != "s" && (sorted(got.clone()) != stable || got.len() != stable.len()) {
                    record(format!("C04 call history `{}` (a/b = counting-guided searches, s = plain stable) on one ADF `{}`: the last call returned {:?} expected {:?}", hist, text, got, stable));
                    break;
                }
            }
        }
        checked += 1;
    }
    out(None, checked)
}

// ------------------------------------------------------------------ nogoods (C18)
fn run_ng(seed: u64, budget: usize) -> ! {
    let mut rng = Rng(seed.wrapping_mul(0xA24BAED4963EE407) | 1);
    const N: usize = 4;
    let mut checked = 0;
    let gen = |rng: &mut Rng| -> Vec<Term> { (0..N).map(|_| match rng.below(3) { 0 => Term::TOP, 1 => Term::BOT, _ => Term(5) }).collect() };
    let ext = |a: usize, t: &[Term]| (0..N).all(|i| match tv(&t[i]) { Some(b) => b == ((a >> i) & 1 == 1), None => true });
    'round: for _ in 0..budget {
        if n_found() >= 3 { break; }
        for mode in [DuplicateElemination::None, DuplicateElemination::Equiv, DuplicateElemination::Subsume] {
            let mut st = NoGoodStore::new(N as u32);
            st.set_dup_elem(mode);
            let mut added: Vec<Vec<Term>> = vec![];
            for _ in 0..(1 + rng.below(5)) { let t = gen(&mut rng); if t.iter().any(|x| tv(x).is_some()) { st.add_ng(NoGood::from_term_vec(&t)); added.push(t); } }
            let avoids = |a: usize| !added.iter().any(|ng| ext(a, ng));
            for _ in 0..6 {
                let q = gen(&mut rng);
                let r = st.conclusions(&NoGood::from_term_vec(&q));
                checked += 1;
                let exts: Vec<usize> = (0..(1usize << N)).filter(|a| ext(*a, &q) && avoids(*a)).collect();
                match r {
                    None => if !exts.is_empty() { record(format!("C18: conflict reported for {:?} with added nogoods {:?} (mode {:?}) although assignment {:#b} avoids all", q, added, mode, exts[0])); continue 'round; },
                    Some(c) => {
                        if added.iter().any(|ng| (0..N).all(|i| tv(&ng[i]).is_none() || tv(&ng[i]) == tv(&q[i]))) { record(format!("C18: no conflict although {:?} matches an added nogood of {:?} (mode {:?})", q, added, mode)); continue 'round; }
                        let mut upd = false; let v = c.update_term_vec(&q, &mut upd);
                        for i in 0..N { if let (None, Some(b)) = (tv(&q[i]), tv(&v[i])) { if exts.iter().any(|a| ((a >> i) & 1 == 1) != b) { record(format!("C18: conclusion {}={} for {:?} is not forced by {:?} (mode {:?})", i, b, q, added, mode)); continue 'round; } } }
                    }
                }
            }
        }
    }
    out(None, checked)
}

// ------------------------------------------------------------------ iterators (C20)
fn run_iters(_seed: u64, _budget: usize) -> ! {
    let mut checked = 0;
    'round: for n in 0..=5usize {
        for code in 0..3usize.pow(n as u32) {
            let t: Vec<Term> = (0..n).map(|i| match (code / 3usize.pow(i as u32)) % 3 { 0 => Term::TOP, 1 => Term::BOT, _ => Term(7 + i) }).collect();
            let k = t.iter().filter(|x| tv(x).is_none()).count();
            let two: Vec<Vec<Term>> = TwoValuedInterpretationsIterator::new(&t).collect();
            let three: Vec<Vec<Term>> = ThreeValuedInterpretationsIterator::new(&t).collect();
            checked += 1;
            let set2: BTreeSet<_> = two.iter().cloned().collect(); let set3: BTreeSet<_> = three.iter().cloned().collect();
            if two.len() != 1 << k || set2.len() != two.len() { record(format!("C20: two-valued iterator on {:?} yields {} vectors ({} distinct), expected {}", t, two.len(), set2.len(), 1 << k)); continue 'round; }
            if three.len() != 3usize.pow(k as u32) || set3.len() != three.len() { record(format!("C20: three-valued iterator on {:?} yields {} vectors ({} distinct), expected {}", t, three.len(), set3.len(), 3usize.pow(k as u32))); continue 'round; }
            if three.first() != Some(&t) { record(format!("C20: three-valued iterator on {:?} does not start with the interpretation itself", t)); continue 'round; }
            for v in &two { for i in 0..n { if tv(&t[i]).is_some() && v[i] != t[i] || tv(&v[i]).is_none() { record(format!("C20: two-valued iterator on {:?} yields {:?}", t, v)); continue 'round; } } }
            for v in &three { for i in 0..n { if (tv(&t[i]).is_some() && v[i] != t[i]) || (tv(&v[i]).is_none() && v[i] != t[i]) { record(format!("C20: three-valued iterator on {:?} yields {:?}", t, v)); continue 'round; } } }
        }
    }
    out(None, checked)
}

// ------------------------------------------------------------------ persistence (C14) and streaming mirror (C19)
fn run_persist(seed: u64, budget: usize) -> ! {
    let mut rng = Rng(seed.wrapping_mul(0x9FB21C651E98DF25) | 1);
    let mut checked = 0;
    'round: for round in 0..budget {
        if n_found() >= 3 { break; }
        // every other round: 4..6 statements and one acceptance condition of the shape ite(x, F, G) with F and G over
        // disjoint, differently sized groups of the other statements (children of one node with unbalanced supports)
        let structured = round % 2 == 1;
        let n = if structured { 4 + rng.below(3) } else { 2 + rng.below(3) };
        let mut fs: Vec<F> = (0..n).map(|_| gen_f(&mut rng, n, 1 + (round % 3))).collect();
        if structured {
            let x = rng.below(n);
            let others: Vec<usize> = (0..n).filter(|i| *i != x).collect();
            let cut = 1 + rng.below(others.len() - 1);
            let mut grp = |rng: &mut Rng, g: &[usize]| { let mut f = F::Atom(g[0]); for v in &g[1..] { let a = if rng.below(3) == 0 { F::Not(Box::new(F::Atom(*v))) } else { F::Atom(*v) }; f = match rng.below(3) { 0 => F::And(Box::new(f), Box::new(a)), 1 => F::Or(Box::new(f), Box::new(a)), _ => F::Xor(Box::new(f), Box::new(a)) }; } f };
            let (a, b) = if rng.below(2) == 0 { (&others[..cut], &others[cut..]) } else { (&others[cut..], &others[..cut]) };
            let (fa, fb) = (grp(&mut rng, a), grp(&mut rng, b));
            let k = rng.below(n);
            fs[k] = F::Or(Box::new(F::And(Box::new(F::Atom(x)), Box::new(fa))), Box::new(F::And(Box::new(F::Not(Box::new(F::Atom(x)))), Box::new(fb))));
        }
        let mut text = String::new();
        for i in 0..n { text.push_str(&format!("s({}).", name(i))); }
        for i in 0..n { text.push_str(&format!("ac({},{}).", name(i), show(&fs[i]))); }
        let parser = AdfParser::default(); parser.parse()(&text).unwrap();
        let mut orig = Adf::from_parser(&parser);
        if rng.below(2) == 0 { let _ = orig.grounded(); }
        let json = serde_json::to_string(&orig).unwrap();
        let mut imp: Adf = serde_json::from_str(&json).unwrap();
        imp.fix_import();
        checked += 1;
        if imp.bdd.nodes != orig.bdd.nodes || imp.ac != orig.ac { record(format!("C14: import of `{}` does not reproduce node table / roots", text)); continue 'round; }
        let (go, gi) = (orig.grounded(), imp.grounded());
        if go != gi { record(format!("C14: grounded differs after export/import of `{}`: {:?} vs {:?}", text, gi, go)); continue 'round; }
        let so: Vec<Vec<Term>> = orig.stable().collect(); let si: Vec<Vec<Term>> = imp.stable().collect();
        if so != si { record(format!("C14: stable models differ after export/import of `{}`", text)); continue 'round; }
        let co: Vec<Vec<Term>> = orig.complete().collect(); let ci: Vec<Vec<Term>> = imp.complete().collect();
        if co != ci { record(format!("C14: complete models differ after export/import of `{}`", text)); continue 'round; }
        if imp.bdd.nodes != orig.bdd.nodes { record(format!("C14: node numbering diverges after computing on the import of `{}`", text)); continue 'round; }
        for i in 0..orig.bdd.nodes.len() { let t = Term(i); if orig.bdd.paths(t, true) != imp.bdd.paths(t, true) || orig.bdd.var_dependencies(t) != imp.bdd.var_dependencies(t) { record(format!("C14/C13: paths or dependencies of {:?} differ after import of `{}`", t, text)); continue 'round; } }
        if let Some(p) = canonical(&imp.bdd.nodes) { record(format!("C06/C14: {} after import of `{}`", p, text)); continue 'round; }
        // database-layer rebuild
        let re: Adf = Adf::from((orig.ordering.clone(), Bdd::from(orig.bdd.nodes.clone()), orig.ac.clone()));
        if re.bdd.nodes != orig.bdd.nodes { record(format!("C14: rebuild from node list of `{}` renumbers", text)); continue 'round; }
        // the same rebuild from a node list that the computations above have not grown yet, then compute on it
        let fresh = Adf::from_parser(&parser);
        let mut re2: Adf = Adf::from((fresh.ordering.clone(), Bdd::from(fresh.bdd.nodes.clone()), fresh.ac.clone()));
        if re2.bdd.nodes != fresh.bdd.nodes || re2.ac != fresh.ac { record(format!("C14: rebuild from the fresh node list of `{}` changes the parts", text)); continue 'round; }
        if tvs(&re2.grounded()) != tvs(&go) { record(format!("C14: grounded differs on the ADF rebuilt from its parts (`{}`)", text)); continue 'round; }
        let c2: Vec<V3> = re2.complete().map(|v| tvs(&v)).collect(); let c1: Vec<V3> = co.iter().map(|v| tvs(v)).collect();
        if sorted(c2) != sorted(c1) { record(format!("C14: complete models differ on the ADF rebuilt from its parts (`{}`)", text)); continue 'round; }
        let s2: Vec<V3> = re2.stable().map(|v| tvs(&v)).collect(); let s1: Vec<V3> = so.iter().map(|v| tvs(v)).collect();
        if sorted(s2) != sorted(s1) { record(format!("C14: stable models differ on the ADF rebuilt from its parts (`{}`)", text)); continue 'round; }
        if let Some(p) = canonical(&re2.bdd.nodes) { record(format!("C06/C14: {} after computing on the ADF rebuilt from its parts (`{}`)", p, text)); continue 'round; }
    }
    out(None, checked)
}
#[cfg(not(feature = "frontend"))]
fn run_mirror(_seed: u64, _budget: usize) -> ! { out(None, 0) }
#[cfg(feature = "frontend")]
fn run_mirror(seed: u64, budget: usize) -> ! {
    let mut rng = Rng(seed.wrapping_mul(0xC2B2AE3D27D4EB4F) | 1);
    let mut checked = 0;
    'round: for _ in 0..budget {
        if n_found() >= 2 { break; }
        let (s1, r1) = crossbeam_channel::unbounded(); let (s2, r2) = crossbeam_channel::unbounded();
        let mut prod = Bdd::with_sender(s1);
        let mut relay = Bdd::with_sender_receiver(s2, r1);
        let mut last = Bdd::with_receiver(r2);
        let mut hs = vec![Term::BOT, Term::TOP];
        for _ in 0..(4 + rng.below(10)) {
            let a = hs[rng.below(hs.len())]; let b = hs[rng.below(hs.len())];
            let t = match rng.below(4) { 0 => prod.variable(Var(rng.below(4))), 1 => prod.and(a, b), 2 => prod.or(a, b), _ => prod.xor(a, b) };
            hs.push(t);
            if rng.below(2) == 0 {
                let want = Term(rng.below(prod.nodes.len() + 2));
                let found = relay.recv(want);
                checked += 1;
                if found != (want.value() < relay.nodes.len()) { record(format!("C19: relay.recv({:?}) answered {} but the table has {} nodes", want, found, relay.nodes.len())); continue 'round; }
                if relay.nodes[..] != prod.nodes[..relay.nodes.len()] { record("C19: relay table is not a prefix of the producer's".to_string()); continue 'round; }
                if rng.below(2) == 0 { let f2 = last.recv(want); if f2 != (want.value() < last.nodes.len()) || last.nodes[..] != prod.nodes[..last.nodes.len()] { record("C19: last store of the relay chain is not a prefix of the producer's / wrong poll answer".to_string()); continue 'round; } }
            }
        }
        let big = Term(prod.nodes.len() + 5);
        relay.recv(big); last.recv(big);
        checked += 1;
        if relay.nodes != prod.nodes || last.nodes != prod.nodes { record(format!("C19: after draining, tables differ: producer {} relay {} last {}", prod.nodes.len(), relay.nodes.len(), last.nodes.len())); continue 'round; }
    }
    out(None, checked)
}

// ------------------------------------------------------------------ presentation independence (C10)
fn show_l(f: &F, l: &[String]) -> String {
    match f { F::Top => "c(v)".into(), F::Bot => "c(f)".into(), F::Atom(i) => l[*i].clone(), F::Not(a) => format!("neg({})", show_l(a, l)),
        F::And(a, b) => format!("and({},{})", show_l(a, l), show_l(b, l)), F::Or(a, b) => format!("or({},{})", show_l(a, l), show_l(b, l)), F::Imp(a, b) => format!("imp({},{})", show_l(a, l), show_l(b, l)),
        F::Xor(a, b) => format!("xor({},{})", show_l(a, l), show_l(b, l)), F::Iff(a, b) => format!("iff({},{})", show_l(a, l), show_l(b, l)) }
}
type LM = BTreeMap<String, Option<bool>>;
/// (grounded, complete, stable, two-valued) as label -> value maps, the label order, and the printed grounded line
fn answers(text: &str, sort: usize) -> Result<(LM, BTreeSet<LM>, BTreeSet<LM>, BTreeSet<LM>, Vec<String>, String), String> {
    let parser = AdfParser::default();
    parser.parse()(text).map_err(|e| format!("parse error {:?}", e))?;
    match sort { 1 => { parser.varsort_lexi(); } 2 => { parser.varsort_alphanum(); } _ => {} }
    let mut adf = Adf::from_parser(&parser);
    let n = adf.ac.len();
    let names: Vec<String> = (0..n).map(|i| adf.ordering.name(Var(i)).unwrap_or_default()).collect();
    let lm = |v: &[Term]| -> LM { v.iter().enumerate().map(|(i, t)| (names[i].clone(), tv(t))).collect() };
    let g = adf.grounded();
    let printed = format!("{}", adf.print_dictionary().print_interpretation(&g));
    let co: BTreeSet<LM> = adf.complete().map(|v| lm(&v)).collect();
    let st: BTreeSet<LM> = adf.stable().map(|v| lm(&v)).collect();
    let (s, r) = crossbeam_channel::unbounded();
    adf.two_val_nogood_channel(Heuristic::Simple, s);
    let tw: BTreeSet<LM> = r.iter().map(|v| lm(&v)).collect();
    Ok((lm(&g), co, st, tw, names, printed))
}
fn run_c10(seed: u64, budget: usize) -> ! {
    let mut rng = Rng(seed.wrapping_mul(0xD1B54A32D192ED03) | 1);
    let pool = ["a", "b", "B", "a10", "a9", "a1", "zz", "z", "10", "9", "b2", "Ab", "ab", "s", "ac", "c", "neg", "x1"];
    let mut checked = 0;
    'round: for round in 0..budget {
        if n_found() >= 3 { break; }
        let n = 2 + rng.below(3);
        let mut labels: Vec<String> = vec![];
        while labels.len() < n { let c = pool[rng.below(pool.len())].to_string(); if !labels.contains(&c) { labels.push(c); } }
        let fs: Vec<F> = (0..n).map(|_| gen_f(&mut rng, n, 1 + (round % 3))).collect();
        let mut facts: Vec<String> = (0..n).map(|i| format!("s({}).", labels[i])).collect();
        let acs: Vec<String> = (0..n).map(|i| format!("ac({},{}).", labels[i], show_l(&fs[i], &labels))).collect();
        let text: String = facts.concat() + &acs.concat();
        let base = match answers(&text, 0) { Ok(b) => b, Err(e) => { record(format!("C10: `{}`: {}", text, e)); continue 'round; } };
        // the same facts in another order (statements shuffled, conditions shuffled, conditions may come first), other layout
        for i in (1..n).rev() { let j = rng.below(i + 1); facts.swap(i, j); }
        let mut acs2 = acs.clone();
        for i in (1..n).rev() { let j = rng.below(i + 1); acs2.swap(i, j); }
        let sep = ["", " ", "\n", "\n\n "][rng.below(4)];
        let mut all: Vec<String> = facts.iter().chain(acs2.iter()).cloned().collect();
        if rng.below(2) == 0 { for i in (1..all.len()).rev() { let j = rng.below(i + 1); all.swap(i, j); } }
        let text2: String = all.iter().map(|f| format!("{}{}", f, sep)).collect();
        // an injective renaming
        let ren: Vec<String> = labels.iter().map(|l| format!("q{}q", l)).collect();
        let text3: String = (0..n).map(|i| format!("s({}).", ren[i])).collect::<String>() + &(0..n).map(|i| format!("ac({},{}).", ren[i], show_l(&fs[i], &ren))).collect::<String>();
        for sort in 0..3 {
            for (which, t) in [("as written", &text), ("reordered", &text2)] {
                checked += 1;
                let got = match answers(t, sort) { Ok(b) => b, Err(e) => { record(format!("C10: `{}` ({}): {}", t, which, e)); continue 'round; } };
                if got.0 != base.0 || got.1 != base.1 || got.2 != base.2 || got.3 != base.3 {
                    record(format!("C10: answers depend on presentation: `{}` ({}, sort mode {}) vs `{}` (no sort): grounded {:?} vs {:?}; complete {} vs {}; stable {} vs {}; two-valued {} vs {}", t.replace('\n', "\\n"), which, sort, text, got.0, base.0, got.1.len(), base.1.len(), got.2.len(), base.2.len(), got.3.len(), base.3.len()));
                    continue 'round;
                }
                if sort == 1 { let mut sorted_names = got.4.clone(); sorted_names.sort_by(|x, y| x.as_bytes().cmp(y.as_bytes())); if sorted_names != got.4 { record(format!("C10: lexicographic sorting reports the statements as {:?} for `{}`", got.4, t)); continue 'round; } }
                // the printed line labels position i with the i-th label and its own value
                let exp: String = got.4.iter().map(|l| format!("{}({}) ", match got.0[l] { Some(true) => "T", Some(false) => "F", None => "u" }, l)).collect::<String>() + "\n";
                if got.5 != exp { record(format!("C10: printed grounded interpretation {:?} but the labelled values are {:?} (`{}`, sort mode {})", got.5, exp, t, sort)); continue 'round; }
            }
        }
        // a parser that has already been used to build an ADF is sorted (again) and used again: the second ADF must read the
        // facts through the NEW numbering (histories: build, sort, build; build, sort, sort, build)
        {
            let parser = AdfParser::default();
            if parser.parse()(&text).is_err() { record(format!("C10: `{}` does not parse", text)); continue 'round; }
            let _first = Adf::from_parser(&parser);
            let _bio = adf_bdd::adfbiodivine::Adf::from_parser(&parser);
            let hist = rng.below(4);
            match hist { 0 => { parser.varsort_lexi(); } 1 => { parser.varsort_alphanum(); } 2 => { parser.varsort_lexi(); parser.varsort_alphanum(); } _ => { parser.varsort_alphanum(); parser.varsort_lexi(); } }
            let mut adf = Adf::from_parser(&parser);
            let n2 = adf.ac.len();
            let names: Vec<String> = (0..n2).map(|i| adf.ordering.name(Var(i)).unwrap_or_default()).collect();
            let lm = |v: &[Term]| -> LM { v.iter().enumerate().map(|(i, t)| (names[i].clone(), tv(t))).collect() };
            let g = lm(&adf.grounded());
            let st: BTreeSet<LM> = adf.stable().map(|v| lm(&v)).collect();
            let co: BTreeSet<LM> = adf.complete().map(|v| lm(&v)).collect();
            let bio = adf_bdd::adfbiodivine::Adf::from_parser(&parser);
            let gb = lm(&bio.grounded());
            checked += 1;
            if g != base.0 || st != base.2 || co != base.1 || gb != base.0 {
                record(format!("C10: a parser that was used, then sorted (history {}), gives different answers for `{}`: grounded {:?} / {:?} (biodivine) vs {:?}; complete {} vs {}; stable {} vs {}", hist, text, g, gb, base.0, co.len(), base.1.len(), st.len(), base.2.len()));
                continue 'round;
            }
        }
        let r3 = match answers(&text3, rng.below(3)) { Ok(b) => b, Err(e) => { record(format!("C10: `{}` (renamed): {}", text3, e)); continue 'round; } };
        let back = |m: &LM| -> LM { m.iter().map(|(k, v)| (k[1..k.len() - 1].to_string(), *v)).collect() };
        if back(&r3.0) != base.0 || r3.1.iter().map(back).collect::<BTreeSet<LM>>() != base.1 || r3.2.iter().map(back).collect::<BTreeSet<LM>>() != base.2 {
            record(format!("C10: answers change under renaming: `{}` vs `{}`", text3, text)); continue 'round;
        }
    }
    out(None, checked)
}

fn main() {
    let a: Vec<String> = std::env::args().collect();
    let seed: u64 = a.get(2).and_then(|s| s.parse().ok()).unwrap_or(1);
    let budget: usize = a.get(3).and_then(|s| s.parse().ok()).unwrap_or(200);
    let _ = (BTreeMap::<u8, u8>::new(), HashMap::<u8, u8>::new());
    match a.get(1).map(|s| s.as_str()) {
        Some("bdd") => run_bdd(seed, budget), Some("adf") => run_adf(seed, budget), Some("ng") => run_ng(seed, budget), Some("iters") => run_iters(seed, budget),
        Some("c04") => run_c04(seed, budget), Some("persist") => run_persist(seed, budget), Some("mirror") => run_mirror(seed, budget), Some("c10") => run_c10(seed, budget),
        _ => { eprintln!("usage: verif_replay <bdd|adf|ng|iters|persist|mirror> <seed> <budget>"); std::process::exit(2) }
    }
}
